(* Level 0 under every schedule of compress() calls: any chunking of the input, any output
   buffer sizes, flush values None / Sync / Full / Finish.  What has been emitted when the
   compressor reports Done is a sequence of stored blocks that the RFC 1951 / RFC 1950
   specification decodes to exactly the input consumed (C02, C12 and C14 at level 0). *)
From Coq Require Import NArith ZArith List Bool Lia Arith.
From MZ.lib Require Import Arr Bits Mach.
From MZ.spec Require Import Adler DeflateSpec.
From MZ.gen Require GenTables GenZlib.
From MZ.model Require Import DeflateCore.
From MZ.proofs Require Import IterPow StoredSpec DeflateCounts StoredModel.
From MZ.proofs Require ZlibHeader.
Import ListNotations.
Local Open Scope N_scope.
Arguments N.add : simpl never.
Arguments N.sub : simpl never.
Arguments N.mul : simpl never.
Arguments N.min : simpl never.
Arguments N.ltb : simpl never.
Arguments N.leb : simpl never.
Arguments N.eqb : simpl never.

Definition legal_flush (f : N) : Prop := f = TF_NONE \/ f = TF_SYNC \/ f = TF_FULL \/ f = TF_FINISH.

(* ------------------------------------------------------------------ flush_block, any legal flush *)
Definition sync_marker : list N := stored_block false [].

Definition gblock_bytes (c : comp) (flush : N) : list N :=
  (if hasf (c_flags c) FLAG_ZLIB && (c_block_index c =? 0) then hdr (c_flags c) (c_wbits c) else []) ++
  (if (0 <? c_total_bytes c) || (flush =? TF_FINISH)
   then stored_block (flush =? TF_FINISH) (dict_range (c_dict c) (N.land (c_cbdp c) DMASK) (c_total_bytes c))
   else []) ++
  (if flush =? TF_FINISH then (if hasf (c_flags c) FLAG_ZLIB then be32 (c_adler c) else [])
   else if (flush =? TF_SYNC) || (flush =? TF_FULL) then sync_marker else []).

Lemma put_sync_marker o o1 o2 o3 o4 :
  aligned o ->
  put_bits o 0 3 = Ret o1 -> ob_pad_to_bytes o1 = Ret o2 -> put_bits o2 0 16 = Ret o3 -> put_bits o3 65535 16 = Ret o4 ->
  o4 = push o sync_marker.
Proof.
  destruct o as [r n bb bi]. unfold aligned. cbn [ob_bb ob_bits]. intros [-> ->].
  rewrite put_from_aligned by (change (2 ^ 3) with 8; lia).
  rewrite ofb_done by (cbn [ob_bits]; lia).
  intros H; inversion H; subst o1; clear H.
  unfold ob_pad_to_bytes, csub, put_bits, put_bits_no_flush, guard. cbn [ob_rev ob_n ob_bb ob_bits bind].
  change (negb (3 =? 0)) with true. cbv iota. change (3 <=? 8) with true. cbn [bind]. change (8 - 3) with 5.
  change (5 <? 32) with true. cbn [bind]. change (0 <=? N.ones 5) with true. cbn [bind].
  rewrite N.shiftl_0_l, N.lor_0_r. change (0 mod U32) with 0. change (3 + 5) with 8.
  rewrite ofb_step. cbn [ob_rev ob_n ob_bb ob_bits]. change (8 <=? 8) with true. cbv iota.
  unfold guard. destruct (n <? OUT_CAP); cbn [bind]; [|discriminate].
  rewrite ofb_done by (cbn [ob_bits]; lia).
  change (0 mod 256) with 0. change (N.shiftr 0 8) with 0. change (8 - 8) with 0.
  intros H; inversion H; subst o2; clear H.
  intros E3 E4.
  apply put16 in E3; [|split; reflexivity|lia].
  apply put16 in E4; [|subst o3; apply aligned_push|lia].
  subst o4 o3. rewrite push_push. unfold push. cbn [ob_rev ob_n rev app length].
  unfold sync_marker, stored_block, le16. cbn [length app rev N.of_nat b2n].
  change (0 mod 256) with 0. change (0 / 256 mod 256) with 0.
  change ((65535 - 0) mod 256) with 255. change ((65535 - 0) / 256 mod 256) with 255.
  change (65535 mod 256) with 255. change (65535 / 256 mod 256) with 255.
  f_equal. lia.
Qed.

Definition fb_tail (c : comp) (flush : N) (o2 : obuf) : res obuf :=
  if flush =? TF_FINISH then
    o <- ob_pad_to_bytes o2 ;;
    if hasf (c_flags c) FLAG_ZLIB then
      let a := c_adler c in
      o <- put_bits o (a / 16777216 mod 256) 8 ;;
      o <- put_bits o (a / 65536 mod 256) 8 ;;
      o <- put_bits o (a / 256 mod 256) 8 ;;
      put_bits o (a mod 256) 8
    else Ret o
  else if flush =? TF_PARTIAL then put_bits o2 2 10
  else if flush =? TF_PARTIAL_OPT then
    (if negb (ob_bits o2 =? 0) then put_bits o2 2 10 else Ret o2)
  else if (flush =? TF_SYNC) || (flush =? TF_FULL) then
    o <- put_bits o2 0 3 ;; o <- ob_pad_to_bytes o ;; o <- put_bits o 0 16 ;; put_bits o 65535 16
  else if flush =? TF_SYNC_OPT then
    (if negb (ob_bits o2 =? 0) then
       o <- put_bits o2 0 3 ;; o <- ob_pad_to_bytes o ;; o <- put_bits o 0 16 ;; put_bits o 65535 16
     else Ret o2)
  else Ret o2.

Definition trailer_bytes (c : comp) (flush : N) : list N :=
  if flush =? TF_FINISH then (if hasf (c_flags c) FLAG_ZLIB then be32 (c_adler c) else [])
  else if (flush =? TF_SYNC) || (flush =? TF_FULL) then sync_marker else [].

Lemma fb_tail_spec c flush o2 og :
  aligned o2 -> legal_flush flush -> fb_tail c flush o2 = Ret og -> og = push o2 (trailer_bytes c flush).
Proof.
  intros A2 Hfl. unfold fb_tail, trailer_bytes.
  destruct Hfl as [-> | [-> | [-> | ->]]].
  - change (TF_NONE =? TF_FINISH) with false. change (TF_NONE =? TF_PARTIAL) with false.
    change (TF_NONE =? TF_PARTIAL_OPT) with false. change ((TF_NONE =? TF_SYNC) || (TF_NONE =? TF_FULL)) with false.
    change (TF_NONE =? TF_SYNC_OPT) with false. cbv iota.
    intros E; inversion E; subst og. symmetry. apply push_nil. exact A2.
  - change (TF_SYNC =? TF_FINISH) with false. change (TF_SYNC =? TF_PARTIAL) with false.
    change (TF_SYNC =? TF_PARTIAL_OPT) with false. change ((TF_SYNC =? TF_SYNC) || (TF_SYNC =? TF_FULL)) with true.
    cbv iota. intros Eg.
    match type of Eg with bind ?X _ = _ => destruct X as [oa| |] eqn:Ea end; cbn [bind] in Eg; try discriminate.
    match type of Eg with bind ?X _ = _ => destruct X as [ob| |] eqn:Eb end; cbn [bind] in Eg; try discriminate.
    match type of Eg with bind ?X _ = _ => destruct X as [oc| |] eqn:Ec end; cbn [bind] in Eg; try discriminate.
    exact (put_sync_marker o2 oa ob oc og A2 Ea Eb Ec Eg).
  - change (TF_FULL =? TF_FINISH) with false. change (TF_FULL =? TF_PARTIAL) with false.
    change (TF_FULL =? TF_PARTIAL_OPT) with false. change ((TF_FULL =? TF_SYNC) || (TF_FULL =? TF_FULL)) with true.
    cbv iota. intros Eg.
    match type of Eg with bind ?X _ = _ => destruct X as [oa| |] eqn:Ea end; cbn [bind] in Eg; try discriminate.
    match type of Eg with bind ?X _ = _ => destruct X as [ob| |] eqn:Eb end; cbn [bind] in Eg; try discriminate.
    match type of Eg with bind ?X _ = _ => destruct X as [oc| |] eqn:Ec end; cbn [bind] in Eg; try discriminate.
    exact (put_sync_marker o2 oa ob oc og A2 Ea Eb Ec Eg).
  - change (TF_FINISH =? TF_FINISH) with true. cbv iota. intros Eg.
    match type of Eg with bind ?X _ = _ => destruct X as [oh| |] eqn:Eh end; cbn [bind] in Eg; try discriminate.
    apply pad_aligned in Eh; [|exact A2]. subst oh.
    destruct (hasf (c_flags c) FLAG_ZLIB).
    + cbv zeta in Eg.
      match type of Eg with bind ?X _ = _ => destruct X as [oi| |] eqn:Ei end; cbn [bind] in Eg; try discriminate.
      match type of Eg with bind ?X _ = _ => destruct X as [oj| |] eqn:Ej end; cbn [bind] in Eg; try discriminate.
      match type of Eg with bind ?X _ = _ => destruct X as [ok| |] eqn:Ek end; cbn [bind] in Eg; try discriminate.
      apply put8 in Ei; [|exact A2|apply N.mod_lt; lia].
      apply put8 in Ej; [|subst oi; apply aligned_push|apply N.mod_lt; lia].
      apply put8 in Ek; [|subst oj; apply aligned_push|apply N.mod_lt; lia].
      apply put8 in Eg; [|subst ok; apply aligned_push|apply N.mod_lt; lia].
      subst og ok oj oi. rewrite !push_push. reflexivity.
    + inversion Eg; subst og. symmetry. apply push_nil. exact A2.
Qed.

Lemma flush_block_gen c cb flush r :
  hasf (c_flags c) FLAG_RAW = true -> c_sbuf c = 0 -> c_sbits c = 0 -> c_wbits c <= 15 ->
  legal_flush flush -> c_pending c = [] ->
  c_total_bytes c < 32768 ->
  flush_block c cb flush = Ret r ->
  r = let '(n, c2, cb2) := flush_output (after_block c) cb (gblock_bytes c flush) in FbOk n c2 cb2.
Proof.
  intros Hraw Hsb Hsn Hwb Hfl Hpe Htb.
  unfold flush_block. rewrite Hsb, Hsn, Hraw.
  set (o0 := {| ob_rev := []; ob_n := 0; ob_bb := 0; ob_bits := 0 |}).
  assert (A0 : aligned o0) by (split; reflexivity).
  assert (Hh : forall o1,
    (if hasf (c_flags c) FLAG_ZLIB && (c_block_index c =? 0)
     then let '(h0, h1, _) := GenZlib.header_from_flags (Z.of_N (c_flags c)) (Z.of_N (c_wbits c)) in
          put_bits (put_bits_no_flush o0 (Z.to_N h0) 8) (Z.to_N h1) 8
     else Ret o0) = Ret o1 ->
    o1 = push o0 (if hasf (c_flags c) FLAG_ZLIB && (c_block_index c =? 0) then hdr (c_flags c) (c_wbits c) else [])).
  { intros o1. unfold hdr. destruct (hasf (c_flags c) FLAG_ZLIB); cbn [andb].
    - destruct (c_block_index c =? 0).
      + pose proof (ZlibHeader.header_from_flags_valid (Z.of_N (c_flags c)) (Z.of_N (c_wbits c)) ltac:(lia)) as Hv.
        destruct (GenZlib.header_from_flags (Z.of_N (c_flags c)) (Z.of_N (c_wbits c))) as [[h0 h1] okf].
        destruct Hv as (_ & _ & _ & _ & _ & _ & Hc & Hf & _).
        intros E. apply put_hdr in E; [exact E|exact A0|lia|lia].
      + intros E; inversion E. symmetry. apply push_nil. exact A0.
    - intros E; inversion E. symmetry. apply push_nil. exact A0. }
  match goal with |- bind ?X _ = _ -> _ => destruct X as [o1| |] eqn:E1 end; cbn [bind]; try discriminate.
  specialize (Hh o1 eq_refl). clear E1. rename Hh into E1.
  set (hb := if hasf (c_flags c) FLAG_ZLIB && (c_block_index c =? 0) then hdr (c_flags c) (c_wbits c) else []) in *.
  assert (A1 : aligned o1) by (subst o1; apply aligned_push).
  set (chunk := dict_range (c_dict c) (N.land (c_cbdp c) DMASK) (c_total_bytes c)).
  assert (Hlen : N.of_nat (length chunk) = c_total_bytes c).
  { unfold chunk. rewrite length_dict_range; [lia| |exact Htb]. rewrite land_dmask. apply N.mod_lt. lia. }
  intros H.
  (* the data block, if any *)
  match type of H with bind ?X _ = _ => destruct X as [ro| |] eqn:E2 end; cbn [bind] in H; try discriminate.
  assert (Hro : ro = Some (push o0 (hb ++ (if (0 <? c_total_bytes c) || (flush =? TF_FINISH)
                                          then stored_block (flush =? TF_FINISH) chunk else [])))).
  { destruct ((0 <? c_total_bytes c) || (flush =? TF_FINISH)) eqn:Eb.
    - unfold csub in E2. destruct (c_cbdp c <=? c_la_pos c); cbn [bind] in E2; [|discriminate].
      unfold guard in E2.
      match type of E2 with context [Bool.eqb ?u true] => destruct u eqn:Eu end; cbn [Bool.eqb bind] in E2; [|discriminate].
      rewrite Hpe in E2. cbn [negb bind] in E2.
      match type of E2 with bind ?X _ = _ => destruct X as [oa| |] eqn:Ea end; cbn [bind] in E2; try discriminate.
      match type of E2 with bind ?X _ = _ => destruct X as [ob| |] eqn:Eb' end; cbn [bind] in E2; try discriminate.
      match type of E2 with bind ?X _ = _ => destruct X as [oc| |] eqn:Ec end; cbn [bind] in E2; try discriminate.
      assert (Hoc : oc = push o1 [if flush =? TF_FINISH then 1 else 0]).
      { eapply put_block_header; [exact A1| |exact Ea|exact Eb'|exact Ec]. destruct (flush =? TF_FINISH); lia. }
      match type of E2 with bind ?X _ = _ => destruct X as [od| |] eqn:Ed end; cbn [bind] in E2; try discriminate.
      match type of E2 with bind ?X _ = _ => destruct X as [oe| |] eqn:Ee end; cbn [bind] in E2; try discriminate.
      match type of E2 with bind ?X _ = _ => destruct X as [of| |] eqn:Ef end; cbn [bind] in E2; try discriminate.
      inversion E2; subst ro; clear E2.
      assert (Htb16 : c_total_bytes c < 65536) by lia.
      change 65535 with (N.ones 16) in Ed at 1. rewrite N.land_ones, N.mod_small in Ed by (change (2 ^ 16) with 65536; lia).
      rewrite lnot16 in Ee by exact Htb16.
      apply put16 in Ed; [|subst oc; apply aligned_push|lia].
      apply put16 in Ee; [|subst od; apply aligned_push|lia].
      apply write_bytes_push in Ef; [|subst oe; apply aligned_push].
      f_equal. subst of oe od oc o1. rewrite !push_push. f_equal. f_equal. unfold stored_block. fold chunk. rewrite Hlen.
      cbn [app]. destruct (flush =? TF_FINISH); reflexivity.
    - inversion E2; subst ro. f_equal. subst o1. rewrite app_nil_r. reflexivity. }
  subst ro.
  set (o2 := push o0 _) in H.
  assert (A2 : aligned o2) by apply aligned_push.
  match type of H with bind ?X _ = _ => destruct X as [og| |] eqn:Eg end; cbn [bind] in H; try discriminate.
  apply (fb_tail_spec c flush o2 og A2 Hfl) in Eg.
  subst og. unfold o2 in H. rewrite push_push in H. cbn [push ob_bb ob_bits ob_rev o0] in H.
  rewrite app_nil_r, rev_append_rev, app_nil_r, rev_involutive in H.
  unfold after_block.
  replace (gblock_bytes c flush) with
    ((hb ++ (if (0 <? c_total_bytes c) || (flush =? TF_FINISH) then stored_block (flush =? TF_FINISH) chunk else [])) ++
     trailer_bytes c flush) by (unfold gblock_bytes, trailer_bytes; fold hb; fold chunk; rewrite <- app_assoc; reflexivity).
  destruct (flush_output _ cb _) as [[n c2] cb2].
  inversion H; subst; reflexivity.
Qed.

(* ------------------------------------------------------------------ invariants *)
Definition slice (l : list N) (a b : N) : list N := firstn (N.to_nat (b - a)) (skipn (N.to_nat a) l).

Section Sched.
Variables (data : list N) (flags wb : N).
Hypothesis Hraw : hasf flags FLAG_RAW = true.
Hypothesis Hwb : wb <= 15.

Notation total := (total data).

Definition ENC (k : N) (chunks : list (list N)) : list N :=
  if k =? 0 then [] else hdr flags wb ++ concat (map (stored_block false) chunks).
Definition chunks_small (chunks : list (list N)) : Prop := Forall (fun ch => N.of_nat (length ch) <= BS) chunks.

Definition emitted (R : list N) (c : comp) (cb : cbout) : Prop :=
  exists chunks, chunks_small chunks /\ (c_block_index c = 0 -> chunks = []) /\
                 concat chunks = firstn (N.to_nat (c_cbdp c)) data /\
                 R ++ cb_written cb ++ c_pending c = ENC (c_block_index c) chunks.

Definition BI2 (R : list N) (A : N) (c : comp) (cb : cbout) : Prop :=
  cfix flags wb A c /\
  c_la_pos c + c_la_size c <= total /\
  c_la_pos c = c_cbdp c + c_total_bytes c /\
  c_total_bytes c < BS /\ c_la_size c <= 257 /\
  dict_inv (c_dict c) data (c_cbdp c) (c_la_pos c + c_la_size c) /\
  (exists len w ofs, cb = CBuf len w ofs) /\
  emitted R c cb.

Definition SI2 (R : list N) (A C0 E f : N) (s : sstate) : Prop :=
  let c := s_c s in
  cfix flags wb A c /\ c_flush c = f /\ c_pending c = [] /\
  s_in s = slice data (s_lp s + s_ls s) E /\
  s_inleft s = E - (s_lp s + s_ls s) /\
  s_lp s + s_ls s <= E /\ E <= total /\
  s_lp s + s_ls s = C0 + s_src s /\
  s_lp s = c_cbdp c + s_bw s /\
  s_bw s < BS /\ s_ls s <= 257 /\
  dict_inv (c_dict c) data (c_cbdp c) (s_lp s + s_ls s) /\
  (exists len w ofs, s_cb s = CBuf len w ofs) /\
  emitted R c (s_cb s).

Definition SQ2 (R : list N) (A C0 E f : N) (r : res stres) : Prop :=
  match r with
  | Ret (SRet ok c cb src) =>
      ok = true /\ BI2 R A c cb /\ c_flush c = f /\
      c_la_pos c + c_la_size c = C0 + src /\ C0 + src <= E /\
      (c_pending c = [] -> c_la_pos c + c_la_size c = E /\ (f <> TF_NONE -> c_la_size c = 0))
  | _ => True
  end.

Lemma ENC_snoc k chunks more :
  (k = 0 -> chunks = []) ->
  ENC (k + 1) (chunks ++ more) =
  ENC k chunks ++ (if hasf flags FLAG_ZLIB && (k =? 0) then hdr flags wb else []) ++
  concat (map (stored_block false) more).
Proof.
  intros H0. unfold ENC. replace (k + 1 =? 0) with false by (symmetry; apply N.eqb_neq; lia).
  rewrite map_app, concat_app.
  destruct (k =? 0) eqn:E.
  - apply N.eqb_eq in E. rewrite (H0 E). rewrite andb_true_r. cbn [map concat app].
    destruct (hasf flags FLAG_ZLIB) eqn:Z; [reflexivity|]. rewrite (hdr_nonzlib flags wb Z). reflexivity.
  - rewrite andb_false_r. cbn [app]. rewrite <- !app_assoc. reflexivity.
Qed.

(* ---- slices of the input *)
Lemma slice_length a b : a <= b -> b <= total -> N.of_nat (length (slice data a b)) = b - a.
Proof.
  intros H1 H2. unfold slice. rewrite firstn_length, skipn_length. unfold StoredModel.total in *. lia.
Qed.

Lemma slice_nth a b k : (k < N.to_nat (b - a))%nat -> nth k (slice data a b) 0 = dat data (a + N.of_nat k).
Proof. intros H. unfold slice. apply (firstn_skipn_dat data wb Hwb). exact H. Qed.

Lemma slice_skipn a b n : n <= b - a -> skipn (N.to_nat n) (slice data a b) = slice data (a + n) b.
Proof.
  intros H. unfold slice. rewrite skipn_firstn_comm, skipn_skipn_add. f_equal; [lia|f_equal; lia].
Qed.

Lemma firstn_slice_nth a b n k :
  n <= b - a -> (k < N.to_nat n)%nat -> nth k (firstn (N.to_nat n) (slice data a b)) 0 = dat data (a + N.of_nat k).
Proof. intros H1 H2. rewrite nth_firstn_lt by exact H2. apply slice_nth. lia. Qed.

Lemma firstn_app_skip (a b : nat) : firstn a data ++ firstn b (skipn a data) = firstn (a + b) data.
Proof. apply firstn_skipn_firstn. Qed.

Lemma emitted_same R c c' cb :
  c_cbdp c' = c_cbdp c -> c_block_index c' = c_block_index c -> c_pending c' = c_pending c ->
  emitted R c cb -> emitted R c' cb.
Proof. unfold emitted. intros -> -> ->. exact (fun H => H). Qed.

(* the bytes of an in-loop block *)
Lemma gblock_none c :
  c_flags c = flags -> c_wbits c = wb -> c_total_bytes c = BS ->
  dict_inv (c_dict c) data (c_cbdp c) (c_cbdp c + BS) -> c_cbdp c + BS <= total ->
  gblock_bytes c TF_NONE =
  (if hasf flags FLAG_ZLIB && (c_block_index c =? 0) then hdr flags wb else []) ++
  stored_block false (firstn (N.to_nat BS) (skipn (N.to_nat (c_cbdp c)) data)).
Proof.
  intros Hf Hw Ht Hd Hle. unfold gblock_bytes. rewrite Hf, Hw, Ht.
  change (TF_NONE =? TF_FINISH) with false. change ((TF_NONE =? TF_SYNC) || (TF_NONE =? TF_FULL)) with false.
  change (0 <? BS) with true. cbn [orb]. rewrite app_nil_r.
  rewrite (dict_range_data _ data); [|exact Hd|unfold BS; lia|exact Hle]. reflexivity.
Qed.

Lemma stored_turn_SI2 R A C0 E f s :
  A < 2 ^ 32 -> legal_flush f -> SI2 R A C0 E f s ->
  match stored_turn s with
  | inl s' => SI2 R A C0 E f s'
  | inr r => SQ2 R A C0 E f r
  end.
Proof.
  intros HA Hlf HSI.
  destruct HSI as (Hfix & Hfl & Hpe & Hin & Hil & HleE & HEt & Hsrc & Hlp & Hbw & Hls & Hd & Hcbuf & Hem).
  destruct Hfix as (F1 & F2 & F3 & F4 & F5 & F6).
  unfold stored_turn. cbv zeta. rewrite Hfl.
  destruct ((0 <? s_inleft s) || negb (f =? TF_NONE) && negb (s_ls s =? 0)) eqn:Econd.
  2:{ (* the loop is over *)
      apply orb_false_iff in Econd. destruct Econd as [E1 E2]. apply N.ltb_ge in E1.
      unfold SQ2.
      cbn [set_la mkc c_flush c_pending c_la_pos c_la_size].
      split; [reflexivity|]. split.
      { unfold BI2, cfix.
        cbn [set_la mkc c_flags c_wbits c_sbuf c_sbits c_finished c_adler c_flush c_pending
             c_cbdp c_block_index c_dict c_total_bytes c_la_pos c_la_size].
        repeat split; try assumption; try lia. }
      split; [exact Hfl|]. split; [lia|]. split; [lia|].
      intros _. split; [lia|]. intros Hne.
      apply andb_false_iff in E2. destruct E2 as [E2|E2].
      - apply negb_false_iff, N.eqb_eq in E2. contradiction.
      - apply negb_false_iff, N.eqb_eq in E2. exact E2. }
  destruct (csub C_MAX_MATCH (s_ls s) 320) as [room| |] eqn:Er; try exact I.
  assert (Hroom : room = 258 - s_ls s).
  { unfold csub, C_MAX_MATCH in Er. destruct (s_ls s <=? 258); inversion Er; reflexivity. }
  set (P := s_lp s + s_ls s) in *.
  set (n := N.min (s_inleft s) room).
  assert (Hn1 : n <= E - P) by (unfold n; lia).
  assert (Hn2 : s_ls s + n <= 258) by (unfold n; lia).
  set (bytes := firstn (N.to_nat n) (s_in s)).
  assert (Hblen : N.of_nat (length bytes) = n).
  { unfold bytes. rewrite firstn_length. rewrite Hin. pose proof (slice_length P E HleE HEt). lia. }
  set (d := dict_put (c_dict (s_c s)) P bytes).
  assert (Hd' : dict_inv d data (c_cbdp (s_c s)) (P + n)).
  { rewrite <- Hblen. unfold d. apply dict_put_inv; [exact Hd|unfold P; lia|unfold BS, P in *; lia|].
    intros k Hk. unfold bytes. rewrite Hin. apply firstn_slice_nth; lia. }
  assert (Hrest : skipn (N.to_nat n) (s_in s) = slice data (P + n) E).
  { rewrite Hin. apply slice_skipn. exact Hn1. }
  destruct ((f =? TF_NONE) && (s_ls s + n <? C_MAX_MATCH)) eqn:Eearly.
  { (* flush None: the look-ahead is not full yet, everything offered has been taken *)
    apply andb_true_iff in Eearly. destruct Eearly as [Ef El]. apply N.ltb_lt in El. unfold C_MAX_MATCH in El.
    assert (Hall : n = E - P) by (unfold n in *; lia).
    unfold SQ2.
    cbn [set_la mkc c_flush c_pending c_la_pos c_la_size].
    split; [reflexivity|]. split.
    { unfold BI2, cfix.
      cbn [set_la mkc c_flags c_wbits c_sbuf c_sbits c_finished c_adler c_flush c_pending
           c_cbdp c_block_index c_dict c_total_bytes c_la_pos c_la_size].
      repeat split; try assumption; try (unfold P in *; lia).
      replace (s_lp s + (s_ls s + n)) with (P + n) by (unfold P; lia). exact Hd'. }
    split; [exact Hfl|]. split; [unfold P in *; lia|]. split; [unfold P in *; lia|].
    intros _. split; [unfold P in *; lia|]. intros Hne. apply N.eqb_eq in Ef. contradiction. }
  destruct (csub (s_ls s + n) 1 321) as [ls1| |] eqn:El; try exact I.
  assert (Hls1 : ls1 = s_ls s + n - 1 /\ 1 <= s_ls s + n).
  { unfold csub in El. destruct (1 <=? s_ls s + n) eqn:Ex; inversion El. apply N.leb_le in Ex. lia. }
  destruct Hls1 as [-> Hpos].
  destruct (31744 <? s_bw s + 1) eqn:Ebw.
  - (* the block is full: flush it *)
    apply N.ltb_lt in Ebw. assert (Hbw1 : s_bw s + 1 = BS) by (unfold BS in *; lia).
    set (c1 := set_la (s_c s) d (s_ls s + n - 1) (s_lp s + 1) _ (s_bw s + 1)).
    destruct (flush_block c1 (s_cb s) TF_NONE) as [fb| |] eqn:Efb; try exact I.
    apply flush_block_gen in Efb;
      [|cbn; rewrite F1; exact Hraw|cbn; exact F3|cbn; exact F4|cbn; rewrite F2; exact Hwb|left; reflexivity
       |exact Hpe|unfold c1; cbn [set_la mkc c_total_bytes]; unfold BS in *; lia].
    destruct Hcbuf as (len & w & ofs & Ecb). rewrite Ecb in Efb.
    assert (Hbb : gblock_bytes c1 TF_NONE =
                  (if hasf flags FLAG_ZLIB && (c_block_index (s_c s) =? 0) then hdr flags wb else []) ++
                  stored_block false (firstn (N.to_nat BS) (skipn (N.to_nat (c_cbdp (s_c s))) data))).
    { change (c_block_index (s_c s)) with (c_block_index c1). change (c_cbdp (s_c s)) with (c_cbdp c1).
      apply gblock_none; unfold c1; cbn [set_la mkc c_flags c_wbits c_total_bytes c_cbdp c_block_index c_dict];
        try assumption.
      - eapply dict_inv_weaken; [exact Hd'|lia|unfold P; lia].
      - unfold P in *. lia. }
    destruct (flush_output (after_block c1) (CBuf len w ofs) (gblock_bytes c1 TF_NONE)) as [[nn c2] cb2] eqn:Efo.
    assert (Hne : gblock_bytes c1 TF_NONE <> []).
    { rewrite Hbb. intros X. apply app_eq_nil in X. destruct X as [_ X]. unfold stored_block in X. discriminate X. }
    apply (flush_output_vout wb Hwb) in Efo; [|exact Hpe|exact Hne].
    destruct Efo as (Ev & (w' & ofs' & Ecb2) & Enn & Ec2).
    subst fb.
    (* what has been emitted after this block *)
    assert (Hem2 : emitted R c2 cb2).
    { destruct Hem as (chunks & Hsm & Hz & Hcc & Henc).
      exists (chunks ++ [firstn (N.to_nat BS) (skipn (N.to_nat (c_cbdp (s_c s))) data)]).
      assert (Hk2 : c_block_index c2 = c_block_index (s_c s) + 1 /\ c_cbdp c2 = c_cbdp (s_c s) + BS).
      { destruct Ec2 as [->|(later & _ & ->)]; unfold c1;
          cbn [set_pending after_block set_la mkc c_block_index c_cbdp]; rewrite Hbw1; split; reflexivity. }
      destruct Hk2 as [K1 K2]. rewrite K1, K2.
      split; [|split; [|split]].
      - apply Forall_app. split; [exact Hsm|]. constructor; [|constructor].
        rewrite firstn_length, skipn_length. unfold BS. lia.
      - intros X. lia.
      - rewrite concat_app, Hcc. cbn [concat]. rewrite app_nil_r, firstn_app_skip. f_equal. lia.
      - rewrite Ev, <- Ecb, app_assoc. rewrite Hpe, app_nil_r in Henc. rewrite Henc, Hbb.
        rewrite (ENC_snoc _ _ _ Hz). cbn [map concat]. rewrite app_nil_r. reflexivity. }
    assert (Hc2f : cfix flags wb A c2 /\ c_flush c2 = f /\ c_la_pos c2 = s_lp s + 1 /\ c_la_size c2 = s_ls s + n - 1 /\
                   c_total_bytes c2 = 0 /\ c_dict c2 = d /\ c_cbdp c2 = c_cbdp (s_c s) + BS).
    { destruct Ec2 as [->|(later & _ & ->)]; unfold c1, cfix;
        cbn [set_pending after_block set_la mkc c_flags c_wbits c_sbuf c_sbits c_finished c_adler c_flush
             c_la_pos c_la_size c_total_bytes c_dict c_cbdp]; rewrite Hbw1; repeat split; assumption. }
    destruct Hc2f as (G & Gf & Glp & Gls & Gtb & Gd & Gcb).
    destruct G as (G1 & G2 & G3 & G4 & G5 & G6).
    destruct (negb (nn =? 0)%Z) eqn:Enz.
    + (* output is pending: the engine returns *)
      apply negb_true_iff, Z.eqb_neq in Enz.
      assert (Hpn : c_pending c2 <> []) by (intros X; rewrite X in Enn; cbn in Enn; lia).
      unfold SQ2. rewrite Glp, Gls.
      split; [rewrite Enn; apply Z.ltb_lt; destruct (c_pending c2); [contradiction|cbn [length]; lia]|].
      split.
      { unfold BI2, cfix. rewrite Glp, Gls, Gtb, Gd, Gcb.
        repeat split; try assumption; try (unfold BS, P in *; lia); eauto.
        eapply dict_inv_weaken; [exact Hd'|lia|unfold P; lia]. }
      split; [exact Gf|]. split; [unfold P in *; lia|]. split; [unfold P in *; lia|].
      intros X. contradiction.
    + apply negb_false_iff, Z.eqb_eq in Enz.
      assert (Hp2 : c_pending c2 = []).
      { rewrite Enn in Enz. destruct (c_pending c2); [reflexivity|cbn [length] in Enz; lia]. }
      unfold SI2, cfix. cbn [s_c s_cb s_in s_inleft s_src s_bw s_ls s_lp].
      rewrite Gcb, Gd.
      repeat split; try assumption; try (unfold P in *; lia); eauto.
      all: try (rewrite Hrest; f_equal; unfold P; lia).
      all: try (rewrite Gtb; unfold BS; lia).
      all: try (eapply dict_inv_weaken; [exact Hd'|lia|unfold P; lia]).
  - (* no flush *)
    apply N.ltb_ge in Ebw.
    unfold SI2, cfix. cbn [s_c s_cb s_in s_inleft s_src s_bw s_ls s_lp].
    cbn [set_la mkc c_flags c_wbits c_sbuf c_sbits c_finished c_adler c_flush c_pending
         c_cbdp c_block_index c_dict c_total_bytes].
    repeat split; try assumption; try (unfold BS, P in *; lia).
    all: try (rewrite Hrest; f_equal; unfold P; lia).
    all: try (eapply dict_inv_weaken; [exact Hd'|lia|unfold P; lia]).
Qed.

Lemma compress_stored_post2 R A c cb input E f :
  A < 2 ^ 32 -> legal_flush f -> BI2 R A c cb -> c_flush c = f -> c_pending c = [] ->
  c_la_pos c + c_la_size c <= E -> E <= total ->
  input = slice data (c_la_pos c + c_la_size c) E ->
  SQ2 R A (c_la_pos c + c_la_size c) E f (compress_stored c cb input).
Proof.
  intros HA Hlf HBI Hfl Hpe HCE HEt Hin. unfold compress_stored.
  set (s0 := {| s_c := c; s_cb := cb; s_in := input; s_inleft := N.of_nat (length input); s_src := 0;
               s_bw := c_total_bytes c; s_ls := c_la_size c; s_lp := c_la_pos c |}).
  destruct HBI as (Hfix & Hle & Hlp & Htb & Hls & Hd & Hcbuf & Hem).
  assert (H0 : SI2 R A (c_la_pos c + c_la_size c) E f s0).
  { unfold SI2, s0. cbn [s_c s_cb s_in s_inleft s_src s_bw s_ls s_lp].
    destruct Hfix as (F1 & F2 & F3 & F4 & F5 & F6). unfold cfix.
    repeat split; try assumption; try lia.
    subst input. apply slice_length; assumption. }
  pose proof (iter_pow_inv stored_turn (SI2 R A (c_la_pos c + c_la_size c) E f) (SQ2 R A (c_la_pos c + c_la_size c) E f)) as H.
  assert (H1 : forall s s', SI2 R A (c_la_pos c + c_la_size c) E f s -> stored_turn s = inl s' -> SI2 R A (c_la_pos c + c_la_size c) E f s').
  { intros s s' Hs Et. pose proof (stored_turn_SI2 R A _ E f s HA Hlf Hs) as X. rewrite Et in X. exact X. }
  assert (H2 : forall s r, SI2 R A (c_la_pos c + c_la_size c) E f s -> stored_turn s = inr r -> SQ2 R A (c_la_pos c + c_la_size c) E f r).
  { intros s r Hs Et. pose proof (stored_turn_SI2 R A _ E f s HA Hlf Hs) as X. rewrite Et in X. exact X. }
  specialize (H H1 H2 40%nat s0 H0).
  destruct (iter_pow 40 stored_turn s0) as [s'|rr]; [exact I|exact H].
Qed.

(* ------------------------------------------------------------------ between calls *)
Definition FIN (chunks : list (list N)) (last : list N) (A : N) : list N :=
  hdr flags wb ++ concat (map (stored_block false) chunks) ++ stored_block true last ++
  (if hasf flags FLAG_ZLIB then be32 A else []).

Definition finished_with (out : list N) (n : N) : Prop :=
  n <= total /\ exists chunks last,
    chunks_small chunks /\ N.of_nat (length last) <= BS /\
    concat chunks ++ last = firstn (N.to_nat n) data /\
    out = FIN chunks last (adler32 1 (firstn (N.to_nat n) data)).

(* n: input bytes consumed so far *)
Definition GI2 (R : list N) (c : comp) (n : N) : Prop :=
  c_prev c = TOkay /\
  ((exists A, BI2 R A c (CBuf 0 [] 0) /\ adler_valid A /\ n = c_la_pos c + c_la_size c /\
              (hasf flags FLAG_ZLIB = true -> A = adler32 1 (firstn (N.to_nat n) data)))
   \/ (c_finished c = true /\ finished_with (R ++ c_pending c) n)).

Definition call_post2 (R : list N) (n : N) (r : cresult) : Prop :=
  match r_status r with
  | TOkay => GI2 (R ++ r_out r) (r_comp r) (n + r_in r)
  | TDone => finished_with (R ++ r_out r) (n + r_in r)
  | _ => True
  end.

Lemma ENC_fin k chunks X :
  (k = 0 -> chunks = []) ->
  ENC k chunks ++ (if hasf flags FLAG_ZLIB && (k =? 0) then hdr flags wb else []) ++ X =
  hdr flags wb ++ concat (map (stored_block false) chunks) ++ X.
Proof.
  intros H0. unfold ENC. destruct (k =? 0) eqn:E.
  - apply N.eqb_eq in E. rewrite (H0 E), andb_true_r. cbn [map concat app].
    destruct (hasf flags FLAG_ZLIB) eqn:Z; [reflexivity|]. rewrite (hdr_nonzlib flags wb Z). reflexivity.
  - rewrite andb_false_r. cbn [app]. rewrite <- !app_assoc. reflexivity.
Qed.

Lemma drain_post2 R c c0 n f st c' cb' out_len :
  GI2 R c n -> c0 = set_flush c f ->
  flush_output_buffer c0 (CBuf out_len [] 0) = (st, c', cb') ->
  call_post2 R n {| r_status := st; r_in := 0; r_out := cb_written cb'; r_comp := set_prev c' st; r_cb := cb' |}.
Proof.
  intros [Hprev HG] -> Hf.
  apply fob_vout in Hf. destruct Hf as (Ev & (w' & ofs' & Ecb) & Ec' & Est).
  cbn [cb_written rev_append app] in Ev.
  cbn [set_flush mkc c_pending c_finished] in Ev, Est.
  unfold call_post2. cbn [r_status r_in r_out r_comp]. rewrite N.add_0_r.
  destruct HG as [(A & HBI & HA & Hn & Had)|[Hfin Hfw]].
  - destruct HBI as (Hfix & Hle & Hlp & Htb & Hls & Hd & Hcbuf & Hem).
    destruct Hfix as (F1 & F2 & F3 & F4 & F5 & F6).
    rewrite F5 in Est. cbn [andb] in Est. subst st.
    split; [rewrite Ec'; reflexivity|]. left. exists A. split; [|split; [exact HA|split]].
    + rewrite Ec'. unfold BI2, cfix.
      cbn [set_prev set_pending set_flush mkc c_flags c_wbits c_sbuf c_sbits c_finished c_adler c_la_pos c_la_size
           c_cbdp c_total_bytes c_block_index c_dict c_pending].
      repeat split; try assumption; eauto.
      destruct Hem as (chunks & H1 & H2 & H3 & H4). exists chunks.
      cbn [set_prev set_pending set_flush mkc c_cbdp c_block_index c_pending cb_written rev_append app] in *.
      repeat split; try assumption. rewrite <- app_assoc, Ev. exact H4.
    + rewrite Ec'. exact Hn.
    + exact Had.
  - rewrite Hfin in Est. cbn [andb] in Est.
    destruct (c_pending c') as [|x later] eqn:Ep; subst st.
    + rewrite app_nil_r in Ev. rewrite Ev. exact Hfw.
    + split; [rewrite Ec'; reflexivity|]. right. rewrite Ec'.
      cbn [set_prev set_pending set_flush mkc c_finished c_pending]. split; [exact Hfin|].
      rewrite <- app_assoc, Ev. exact Hfw.
Qed.

Lemma legal_not_partial f : legal_flush f -> f <> TF_NONE -> f = TF_FINISH \/ ((f =? TF_FINISH) = false /\ (f =? TF_SYNC) || (f =? TF_FULL) = true).
Proof. intros [-> | [-> | [-> | ->]]] H; try contradiction; [right|right|left]; try split; reflexivity. Qed.

Theorem compress_GI2 R c n input E out_len f r :
  legal_flush f -> GI2 R c n ->
  (c_finished c = false -> n <= E /\ E <= total /\ input = slice data n E) ->
  compress c input out_len f = Ret (CRet r) -> call_post2 R n r.
Proof.
  intros Hlf HGI Hpre. pose proof HGI as [Hprev HG].
  unfold compress, compress_inner. rewrite Hprev. cbn [negb orb].
  destruct (negb (negb (c_flush c =? TF_FINISH) || (f =? TF_FINISH))).
  { intros H; inversion H; subst r. exact I. }
  set (c0 := set_flush c f).
  set (cb0 := CBuf out_len [] 0).
  assert (Hdrain : forall st c' cb', flush_output_buffer c0 cb0 = (st, c', cb') ->
            call_post2 R n {| r_status := st; r_in := 0; r_out := cb_written cb'; r_comp := set_prev c' st; r_cb := cb' |}).
  { intros st c' cb' Hf. eapply drain_post2; [exact HGI|reflexivity|exact Hf]. }
  change (c_pending c0) with (c_pending c). change (c_finished c0) with (c_finished c).
  change (c_flags c0) with (c_flags c).
  destruct HG as [(A & HBI & HAv & Hn & Had)|[Hfin Hfw]].
  2:{ rewrite Hfin, orb_true_r.
      destruct (flush_output_buffer c0 cb0) as [[st c'] cb'].
      intros H; inversion H; subst r; clear H. apply Hdrain. reflexivity. }
  pose proof (adler_valid_lt wb Hwb A HAv) as HA.
  pose proof HBI as (Hfix & Hle & Hlp & Htb & Hls & Hd & Hcbuf & Hem).
  destruct Hfix as (F1 & F2 & F3 & F4 & F5 & F6).
  rewrite F5, orb_false_r.
  destruct (Hpre F5) as (HnE & HEt & Hin). clear Hpre.
  destruct (c_pending c) as [|p ps] eqn:Hpe; cbn [negb].
  2:{ destruct (flush_output_buffer c0 cb0) as [[st c'] cb'].
      intros H; inversion H; subst r; clear H. apply Hdrain. reflexivity. }
  clear Hdrain.
  rewrite F1, Hraw. cbn [negb].
  assert (HBI0 : BI2 R A c0 cb0).
  { unfold BI2, cfix, c0, cb0.
    cbn [set_flush mkc c_flags c_wbits c_sbuf c_sbits c_finished c_adler c_la_pos c_la_size
         c_cbdp c_total_bytes c_block_index c_dict c_pending].
    repeat split; try assumption; eauto.
    all: try (destruct Hem as (chunks & H1 & H2 & H3 & H4); exists chunks;
              cbn [set_flush mkc c_cbdp c_block_index c_pending cb_written rev_append app] in *;
              try rewrite Hpe in *; repeat split; assumption). }
  subst n.
  pose proof (compress_stored_post2 R A c0 cb0 input E f HA Hlf HBI0 eq_refl Hpe HnE HEt Hin) as HS.
  change (c_la_pos c0 + c_la_size c0) with (c_la_pos c + c_la_size c) in HS.
  destruct (compress_stored c0 cb0 input) as [sr| |]; cbn [bind]; try discriminate.
  destruct sr as [ok c1 cb1 src|]; [|discriminate].
  destruct HS as (Hok & HBI1 & Hfl1 & Hsrc & HsrcE & Hend). subst ok.
  pose proof HBI1 as (Hfix1 & Hle1 & Hlp1 & Htb1 & Hls1 & Hd1 & Hcbuf1 & Hem1).
  destruct Hfix1 as (G1 & G2 & G3 & G4 & G5 & G6).
  set (n0 := c_la_pos c + c_la_size c) in *.
  (* the running checksum *)
  set (A' := if hasf flags FLAG_ZLIB || hasf flags FLAG_ADLER then adler32 A (firstn (N.to_nat src) input) else A).
  assert (HAv' : adler_valid A').
  { unfold A'. destruct (_ || _); [|exact HAv]. apply adler32_valid. exact HAv. }
  assert (Hsrcin : src <= E - n0) by lia.
  assert (Had' : hasf flags FLAG_ZLIB = true -> A' = adler32 1 (firstn (N.to_nat (n0 + src)) data)).
  { intros Z. unfold A'. rewrite Z. cbn [orb]. rewrite (Had Z), adler32_app by exact adler_valid_1.
    f_equal. rewrite Hin. unfold slice. rewrite firstn_firstn.
    replace (Nat.min (N.to_nat src) (N.to_nat (E - n0))) with (N.to_nat src) by lia.
    rewrite firstn_app_skip. f_equal. lia. }
  set (c2 := if hasf (c_flags c1) FLAG_ZLIB || hasf (c_flags c1) FLAG_ADLER
             then set_adler c1 (adler32 (c_adler c1) (firstn (N.to_nat src) input)) else c1).
  assert (HBI2' : BI2 R A' c2 cb1 /\ c_flush c2 = f /\ c_pending c2 = c_pending c1 /\
                 c_la_pos c2 = c_la_pos c1 /\ c_la_size c2 = c_la_size c1 /\ c_prev c2 = c_prev c1).
  { unfold c2, A'. rewrite G1, G6. destruct (_ || _).
    - unfold BI2, cfix.
      cbn [set_adler mkc c_flags c_wbits c_sbuf c_sbits c_finished c_adler c_la_pos c_la_size c_flush c_prev
           c_cbdp c_total_bytes c_block_index c_dict c_pending].
      repeat split; try assumption.
    - repeat split; try assumption. }
  destruct HBI2' as (HBIc2 & Hfl2 & Hpe2 & Hlp2 & Hls2 & Hprev2).
  clearbody c2.
  rewrite Hfl2, Hls2, Hpe2.
  destruct HBIc2 as (Gfix & Hle2 & Hlp2' & Htb2 & Hls2' & Hd2 & (len1 & w1 & ofs1 & Ecb1) & Hem2).
  destruct Gfix as (K1 & K2 & K3 & K4 & K5 & K6).
  match goal with |- bind (if ?b then _ else _) _ = _ -> _ => destruct b eqn:Efin end.
  - (* a flush was requested and everything offered has been taken in *)
    apply andb_true_iff in Efin. destruct Efin as [E0 E2]. apply andb_true_iff in E0. destruct E0 as [Enn E1].
    apply N.eqb_eq in E1. apply negb_true_iff, N.eqb_neq in Enn.
    apply negb_true_iff, orb_false_iff in E2. destruct E2 as [_ E3].
    apply negb_false_iff in E3. destruct (c_pending c1) as [|? ?] eqn:Hp1; [|discriminate]. clear E3.
    destruct (Hend eq_refl) as [Hlast _].
    destruct (flush_block c2 cb1 f) as [fb| |] eqn:Efb; cbn [bind]; try discriminate.
    apply flush_block_gen in Efb;
      [|rewrite K1; exact Hraw|exact K3|exact K4|rewrite K2; exact Hwb|exact Hlf|exact Hpe2|unfold BS in *; lia].
    rewrite Ecb1 in Efb.
    (* the bytes of this flush *)
    set (tb := c_total_bytes c2) in *.
    set (chunk := firstn (N.to_nat tb) (skipn (N.to_nat (c_cbdp c2)) data)).
    assert (Hcons : c_cbdp c2 + tb = n0 + src) by (unfold tb; lia).
    assert (Hgb : gblock_bytes c2 f =
                  (if hasf flags FLAG_ZLIB && (c_block_index c2 =? 0) then hdr flags wb else []) ++
                  (if (0 <? tb) || (f =? TF_FINISH) then stored_block (f =? TF_FINISH) chunk else []) ++
                  (if f =? TF_FINISH then (if hasf flags FLAG_ZLIB then be32 A' else [])
                   else if (f =? TF_SYNC) || (f =? TF_FULL) then sync_marker else [])).
    { unfold gblock_bytes. rewrite K1, K2, K6. fold tb.
      rewrite (dict_range_data _ data); [reflexivity| |unfold BS in *; lia|unfold StoredModel.total in *; lia].
      eapply dict_inv_weaken; [exact Hd2|lia|lia]. }
    destruct (flush_output (after_block c2) (CBuf len1 w1 ofs1) (gblock_bytes c2 f)) as [[nn c3] cb3] eqn:Efo.
    assert (Hne : gblock_bytes c2 f <> []).
    { rewrite Hgb. destruct (legal_not_partial f Hlf Enn) as [->|[Z1 Z2]].
      - change (TF_FINISH =? TF_FINISH) with true. rewrite orb_true_r. intros X.
        apply app_eq_nil in X. destruct X as [_ X]. apply app_eq_nil in X. destruct X as [X _].
        unfold stored_block in X. discriminate X.
      - rewrite Z1, Z2. intros X. apply app_eq_nil in X. destruct X as [_ X]. apply app_eq_nil in X.
        destruct X as [_ X]. discriminate X. }
    apply (flush_output_vout wb Hwb) in Efo; [|exact Hpe2|exact Hne].
    destruct Efo as (Ev & (w3 & ofs3 & Ecb3) & Ennz & Ec3).
    subst fb.
    replace (nn <? 0)%Z with false by (symmetry; apply Z.ltb_ge; rewrite Ennz; lia).
    assert (Hfl3 : c_flush c3 = f).
    { destruct Ec3 as [->|(later & _ & ->)]; cbn; exact Hfl2. }
    rewrite Hfl3.
    set (c4 := set_finished c3 (f =? TF_FINISH)).
    change (c_flush c4) with (c_flush c3). rewrite Hfl3.
    set (c5 := if f =? TF_FULL then set_dsize c4 0 else c4).
    cbn [bind]. rewrite Ecb3.
    destruct (flush_output_buffer c5 (CBuf len1 w3 ofs3)) as [[st c6] cb6] eqn:Ef6.
    apply fob_vout in Ef6. destruct Ef6 as (Ev6 & _ & Ec6 & Est).
    assert (Hc5 : c_pending c5 = c_pending c3 /\ c_finished c5 = (f =? TF_FINISH)).
    { unfold c5, c4. destruct (f =? TF_FULL); cbn; split; reflexivity. }
    destruct Hc5 as [Hp5 Hf5]. rewrite Hp5 in Ev6. rewrite Hf5 in Est.
    intros H; inversion H; subst r; clear H.
    unfold call_post2. cbn [r_status r_in r_out r_comp].
    destruct Hem2 as (chunks & Hsm & Hz & Hcc & Henc).
    rewrite Hpe2, app_nil_r in Henc.
    assert (Hall : R ++ cb_written cb6 ++ c_pending c6 = ENC (c_block_index c2) chunks ++ gblock_bytes c2 f).
    { rewrite Ev6, <- Ecb3, Ev, <- Ecb1, app_assoc, Henc. reflexivity. }
    assert (Hchunk : N.of_nat (length chunk) <= BS).
    { unfold chunk. rewrite firstn_length. lia. }
    assert (Hccs : concat chunks ++ chunk = firstn (N.to_nat (n0 + src)) data).
    { unfold chunk. rewrite Hcc, firstn_app_skip. f_equal. lia. }
    destruct (legal_not_partial f Hlf Enn) as [Hfe|[Z1 Z2]].
    + (* Finish: the last block and the trailer *)
      rewrite Hfe in Hgb, Est, Hall. change (TF_FINISH =? TF_FINISH) with true in Hgb, Est. rewrite orb_true_r in Hgb.
      assert (Hfw : finished_with (R ++ cb_written cb6 ++ c_pending c6) (n0 + src)).
      { split; [lia|]. exists chunks, chunk. split; [exact Hsm|]. split; [exact Hchunk|]. split; [exact Hccs|].
        rewrite Hall, Hgb, (ENC_fin _ _ _ Hz). unfold FIN. f_equal. f_equal. f_equal.
        destruct (hasf flags FLAG_ZLIB) eqn:Z; [|reflexivity]. rewrite (Had' eq_refl). reflexivity. }
      cbn [andb] in Est.
      destruct (c_pending c6) as [|x later] eqn:Hp6; subst st.
      * rewrite app_nil_r in Hfw. exact Hfw.
      * split; [rewrite Ec6; reflexivity|]. right. rewrite Ec6.
        split; [unfold c5, c4; rewrite Hfe; change (TF_FINISH =? TF_FULL) with false; reflexivity|].
        cbn [set_prev set_pending mkc c_pending]. rewrite <- app_assoc. exact Hfw.
    + (* Sync / Full: the data so far and the marker *)
      rewrite Z1 in *. cbn [andb] in Est. subst st. rewrite orb_false_r in Hgb. rewrite Z2 in Hgb.
      split; [rewrite Ec6; reflexivity|]. left. exists A'.
      assert (Hf3 : cfix flags wb A' c3 /\ c_la_pos c3 = c_la_pos c2 /\ c_la_size c3 = c_la_size c2 /\
                    c_total_bytes c3 = 0 /\ c_dict c3 = c_dict c2 /\ c_cbdp c3 = c_cbdp c2 + tb /\
                    c_block_index c3 = c_block_index c2 + 1).
      { destruct Ec3 as [->|(later & _ & ->)]; unfold cfix;
          cbn [set_pending after_block mkc c_flags c_wbits c_sbuf c_sbits c_finished c_adler
               c_la_pos c_la_size c_total_bytes c_dict c_cbdp c_block_index]; repeat split; assumption. }
      destruct Hf3 as ((L1 & L2 & L3 & L4 & L5 & L6) & M1 & M2 & M3 & M4 & M5 & M6).
      split; [|split; [exact HAv'|split]].
      * unfold BI2.
        assert (Hsame : c_flags (set_prev c6 TOkay) = c_flags c3 /\ c_wbits (set_prev c6 TOkay) = c_wbits c3 /\
                        c_sbuf (set_prev c6 TOkay) = c_sbuf c3 /\ c_sbits (set_prev c6 TOkay) = c_sbits c3 /\
                        c_finished (set_prev c6 TOkay) = false /\ c_adler (set_prev c6 TOkay) = c_adler c3 /\
                        c_la_pos (set_prev c6 TOkay) = c_la_pos c3 /\ c_la_size (set_prev c6 TOkay) = c_la_size c3 /\
                        c_total_bytes (set_prev c6 TOkay) = c_total_bytes c3 /\ c_dict (set_prev c6 TOkay) = c_dict c3 /\
                        c_cbdp (set_prev c6 TOkay) = c_cbdp c3 /\ c_block_index (set_prev c6 TOkay) = c_block_index c3 /\
                        c_pending (set_prev c6 TOkay) = c_pending c6).
        { rewrite Ec6. unfold c5, c4. rewrite Z1. destruct (f =? TF_FULL); cbn; repeat split; reflexivity. }
        destruct Hsame as (S1 & S2 & S3 & S4 & S5 & S6 & S7 & S8 & S9 & S10 & S11 & S12 & S13).
        unfold cfix. rewrite S1, S2, S3, S4, S5, S6, S7, S8, S9, S10, S11, M1, M2, M3, M4, M5.
        repeat split; try assumption; try (unfold BS in *; lia); eauto.
        -- eapply dict_inv_weaken; [exact Hd2|lia|lia].
        -- exists (chunks ++ (if 0 <? tb then [chunk] else []) ++ [[]]).
           rewrite S12, S11, S13, M5, M6.
           cbn [cb_written rev_append app].
           split; [|split; [|split]].
           ++ apply Forall_app. split; [exact Hsm|]. apply Forall_app. split.
              ** destruct (0 <? tb); constructor; [exact Hchunk|constructor].
              ** constructor; [cbn; unfold BS; lia|constructor].
           ++ intros X. lia.
           ++ rewrite !concat_app. cbn [concat]. rewrite !app_nil_r.
              destruct (0 <? tb) eqn:T.
              ** cbn [concat]. rewrite app_nil_r, Hccs. f_equal. lia.
              ** apply N.ltb_ge in T. cbn [concat]. rewrite app_nil_r, Hcc. f_equal. lia.
           ++ rewrite <- app_assoc, Hall, Hgb, (ENC_snoc _ _ _ Hz). f_equal. f_equal.
              rewrite map_app, concat_app. unfold sync_marker. cbn [map concat]. rewrite !app_nil_r.
              destruct (0 <? tb); cbn [map concat orb]; rewrite ?app_nil_r; reflexivity.
      * rewrite Ec6. unfold c5, c4. destruct (f =? TF_FULL); cbn [set_prev set_pending set_dsize set_finished mkc c_la_pos c_la_size];
          rewrite M1, M2, Hlp2, Hls2; lia.
      * intros Z. rewrite (Had' Z). reflexivity.
  - (* nothing to flush yet: hand over what fits *)
    cbn [bind]. rewrite Ecb1.
    destruct (flush_output_buffer c2 (CBuf len1 w1 ofs1)) as [[st c3] cb3] eqn:Ef3.
    apply fob_vout in Ef3. destruct Ef3 as (Ev3 & _ & Ec3 & Est).
    rewrite K5 in Est. cbn [andb] in Est. subst st.
    intros H; inversion H; subst r; clear H.
    unfold call_post2. cbn [r_status r_in r_out r_comp].
    split; [rewrite Ec3; reflexivity|]. left. exists A'. split; [|split; [exact HAv'|split]].
    + rewrite Ec3. unfold BI2, cfix.
      cbn [set_prev set_pending mkc c_flags c_wbits c_sbuf c_sbits c_finished c_adler c_la_pos c_la_size
           c_cbdp c_total_bytes c_block_index c_dict c_pending].
      repeat split; try assumption; eauto.
      destruct Hem2 as (chunks & H1 & H2 & H3 & H4). exists chunks.
      cbn [set_prev set_pending mkc c_cbdp c_block_index c_pending cb_written rev_append app].
      repeat split; try assumption. rewrite <- app_assoc, Ev3, <- Ecb1. exact H4.
    + rewrite Ec3. cbn [set_prev set_pending mkc c_la_pos c_la_size]. rewrite Hlp2, Hls2. lia.
    + intros Z. rewrite (Had' Z). reflexivity.
Qed.

(* ------------------------------------------------------------------ a caller *)
(* a schedule: (bytes offered, output buffer length, flush) per call; unconsumed input is offered again *)
Fixpoint drive (c : comp) (rest : list N) (sched : list (N * N * N)) (acc : list N) (consumed : N)
  : res (option (list N * N)) :=
  match sched with
  | [] => Ret None
  | (m, out_len, f) :: sched' =>
      cr <- compress c (firstn (N.to_nat m) rest) out_len f ;;
      match cr with
      | CUnmodelled => Ret None
      | CRet r =>
          match r_status r with
          | TDone => Ret (Some (acc ++ r_out r, consumed + r_in r))
          | TOkay => drive (r_comp r) (skipn (N.to_nat (r_in r)) rest) sched' (acc ++ r_out r) (consumed + r_in r)
          | _ => Ret None
          end
      end
  end.

Lemma firstn_min {A} (l : list A) m : firstn m l = firstn (Nat.min m (length l)) l.
Proof.
  destruct (Nat.le_ge_cases m (length l)) as [H|H].
  - rewrite Nat.min_l by exact H. reflexivity.
  - rewrite Nat.min_r by exact H. rewrite firstn_all. apply firstn_all2. exact H.
Qed.

Theorem drive_finished sched : forall c rest acc n out n',
  Forall (fun it => legal_flush (snd it)) sched ->
  GI2 acc c n -> (c_finished c = false -> rest = skipn (N.to_nat n) data) ->
  drive c rest sched acc n = Ret (Some (out, n')) -> finished_with out n'.
Proof.
  induction sched as [|[[m out_len] f] sched IH]; intros c rest acc n out n' Hleg HGI Hrest; cbn [drive]; [discriminate|].
  inversion Hleg as [|it its Hf Hl']; subst. cbn [snd] in Hf.
  destruct (compress c (firstn (N.to_nat m) rest) out_len f) as [cr| |] eqn:Ec; cbn [bind]; try discriminate.
  destruct cr as [r|]; [|discriminate].
  assert (Hpre : c_finished c = false ->
                 n <= N.min (n + m) total /\ N.min (n + m) total <= total /\
                 firstn (N.to_nat m) rest = slice data n (N.min (n + m) total)).
  { intros Hnf. destruct HGI as [_ [(A & HBI & _ & Hn & _)|[Hfin _]]]; [|congruence].
    destruct HBI as (_ & Hle & _). subst n.
    split; [lia|]. split; [lia|].
    rewrite (Hrest Hnf). unfold slice. rewrite firstn_min, skipn_length. f_equal. unfold StoredModel.total in *. lia. }
  pose proof (compress_GI2 acc c n _ _ out_len f r Hf HGI Hpre Ec) as Hp.
  pose proof (compress_counts _ _ _ _ _ Ec) as [Hrin _].
  unfold call_post2 in Hp.
  destruct (r_status r); try discriminate.
  - (* Okay: go on *)
    apply (IH (r_comp r) _ _ _ out n' Hl' Hp).
    intros Hnf. destruct Hp as [_ [(A & HBI & _ & Hn' & _)|[Hfin _]]]; [|congruence].
    assert (Hcf : c_finished c = false).
    { destruct HGI as [_ [(A0 & (Hfx & _) & _)|[Hfin Hfw]]]; [destruct Hfx as (_ & _ & _ & _ & X & _); exact X|].
      (* a finished compressor stays finished: its calls only drain *)
      exfalso. clear - Hfin Hnf Ec. unfold compress, compress_inner in Ec.
      destruct (negb _ || negb _); [inversion Ec; subst r; cbn in Hnf; congruence|].
      change (c_finished (set_flush c f)) with (c_finished c) in Ec. rewrite Hfin, orb_true_r in Ec.
      destruct (flush_output_buffer (set_flush c f) (CBuf out_len [] 0)) as [[st c'] cb'] eqn:Ef.
      apply fob_vout in Ef. destruct Ef as (_ & _ & Ec' & _).
      inversion Ec; subst r; clear Ec. cbn [r_comp] in Hnf. rewrite Ec' in Hnf. cbn in Hnf. congruence. }
    rewrite (Hrest Hcf), skipn_skipn_add. f_equal. lia.
  - intros H; inversion H; subst out n'. exact Hp.
Qed.
End Sched.
