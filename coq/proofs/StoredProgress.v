(* Progress of the compressor model's output hand-over (structural, any flag word): whenever a call leaves
   output pending, the caller's buffer is full; and what has been written into the buffer is what the call
   reports.  Used to bound the number of turns of the grow-and-retry loop of compress_to_vec_inner. *)
From Coq Require Import NArith ZArith List Bool Lia.
From MZ.lib Require Import Arr Bits Mach.
From MZ.model Require Import DeflateCore.
From MZ.proofs Require Import IterPow DeflateCounts.
Import ListNotations.
Local Open Scope N_scope.

Lemma ntake_f_full {A} (l : list A) : forall k acc cnt t r n,
  ntake_f l k acc cnt = (t, r, n) -> r <> [] -> n = cnt + k.
Proof.
  induction l as [|x l IH]; intros k acc cnt t r n; cbn [ntake_f].
  - intros H; inversion H; subst. intros X; contradiction.
  - destruct (k =? 0) eqn:E.
    + intros H; inversion H; subst. intros _. apply N.eqb_eq in E. lia.
    + intros H Hr. apply (IH _ _ _ _ _ _ H) in Hr. apply N.eqb_neq in E. lia.
Qed.

Lemma ntake_full {A} (l : list A) k t r n : ntake l k = (t, r, n) -> r <> [] -> n = k.
Proof. unfold ntake. intros H Hr. apply (ntake_f_full _ _ _ _ _ _ _ H) in Hr. lia. Qed.

Lemma ntake_some {A} (l : list A) k t r n : ntake l k = (t, r, n) -> l <> [] -> 0 < k -> 0 < n.
Proof.
  intros H Hl Hk. destruct r as [|y r'] eqn:Er.
  - apply ntake_spec in H. destruct H as (E1 & _ & E3). rewrite app_nil_r in E3. subst t.
    destruct l; [contradiction|cbn [length] in E1; lia].
  - apply ntake_full in H; [lia|discriminate].
Qed.

Section P.
Variable L : N.

Definition ofs_of (cb : cbout) : N := match cb with CBuf _ _ ofs => ofs | CFunc _ _ _ => 0 end.

(* pending output only with a full buffer *)
Definition PF (c : comp) (cb : cbout) : Prop :=
  cb_ok L cb /\ (c_pending c <> [] -> ofs_of cb = L).

Lemma written_ofs cb : cb_ok L cb -> N.of_nat (length (cb_written cb)) = ofs_of cb.
Proof.
  destruct cb as [len w ofs|]; cbn; [|contradiction]. intros (H0 & H1 & H2).
  rewrite rev_append_rev, app_nil_r, rev_length. lia.
Qed.

Lemma flush_output_PF c cb bytes n c' cb' :
  cb_ok L cb -> c_pending c = [] -> flush_output c cb bytes = (n, c', cb') ->
  PF c' cb' /\ ofs_of cb <= ofs_of cb' /\ (bytes <> [] -> ofs_of cb < L -> ofs_of cb < ofs_of cb') /\
  n = Z.of_N (N.of_nat (length (c_pending c'))).
Proof.
  intros Hok Hpe H. pose proof (flush_output_ok L _ _ _ _ _ _ H Hok) as Hok'.
  unfold flush_output in H. destruct (N.of_nat (length bytes) =? 0) eqn:E0.
  - inversion H; subst. split; [split; [exact Hok|intros X; contradiction]|]. split; [lia|]. split; [|reflexivity].
    intros Hb. apply N.eqb_eq in E0. destruct bytes; [contradiction|cbn [length] in E0; lia].
  - destruct cb as [len w ofs|acc w calls]; [|cbn in Hok; contradiction].
    destruct (ntake bytes (len - ofs)) as [[now later] k] eqn:Et.
    destruct Hok as (H0 & H1 & H2).
    pose proof (ntake_spec _ _ _ _ _ Et) as (E1 & E2 & E3).
    inversion H; subst n c' cb'; clear H. cbn [ofs_of].
    split.
    + split; [exact Hok'|]. destruct later as [|y later'] eqn:El.
      * rewrite Hpe. intros X; contradiction.
      * intros _. cbn [ofs_of]. pose proof (ntake_full _ _ _ _ _ Et ltac:(discriminate)) as Ek. lia.
    + split; [lia|]. split; [|destruct later; reflexivity].
      intros Hb Hlt. pose proof (ntake_some _ _ _ _ _ Et Hb ltac:(lia)). lia.
Qed.

Lemma fob_PF c cb st c' cb' :
  cb_ok L cb -> flush_output_buffer c cb = (st, c', cb') ->
  PF c' cb' /\ ofs_of cb <= ofs_of cb' /\ (c_pending c <> [] -> ofs_of cb < L -> ofs_of cb < ofs_of cb').
Proof.
  intros Hok H. pose proof (flush_output_buffer_ok L _ _ _ _ _ H Hok) as Hok'.
  unfold flush_output_buffer in H. destruct cb as [len w ofs|acc w calls]; [|cbn in Hok; contradiction].
  destruct (ntake (c_pending c) (len - ofs)) as [[now later] k] eqn:Et.
  destruct Hok as (H0 & H1 & H2).
  pose proof (ntake_spec _ _ _ _ _ Et) as (E1 & E2 & E3).
  inversion H; subst st c' cb'; clear H. cbn [ofs_of].
  split.
  - split; [exact Hok'|]. cbn [set_pending mkc c_pending]. intros Hl.
    pose proof (ntake_full _ _ _ _ _ Et Hl) as Ek. cbn [ofs_of]. lia.
  - split; [lia|]. intros Hp Hlt. pose proof (ntake_some _ _ _ _ _ Et Hp ltac:(lia)). lia.
Qed.

Lemma flush_block_PF c cb flush n c' cb' :
  cb_ok L cb -> c_pending c = [] -> flush_block c cb flush = Ret (FbOk n c' cb') ->
  PF c' cb' /\ ofs_of cb <= ofs_of cb' /\ n = Z.of_N (N.of_nat (length (c_pending c'))).
Proof.
  intros Hok Hpe H. unfold flush_block in H.
  repeat match type of H with
         | bind ?X _ = _ => destruct X eqn:?; cbn [bind] in H; try discriminate H
         end.
  match type of H with context [match ?r with Some _ => _ | None => _ end] => destruct r end; [|discriminate H].
  repeat match type of H with
         | bind ?X _ = _ => destruct X eqn:?; cbn [bind] in H; try discriminate H
         end.
  match type of H with context [flush_output ?a ?b ?d] => destruct (flush_output a b d) as [[nn c2] cb2] eqn:Ef end.
  inversion H; subst n c' cb'; clear H.
  apply flush_output_PF in Ef; [|exact Hok|cbn [mkc c_pending]; exact Hpe].
  destruct Ef as (H1 & H2 & _ & H4). split; [exact H1|]. split; [exact H2|exact H4].
Qed.

Lemma PF_nil c cb : cb_ok L cb -> c_pending c = [] -> PF c cb.
Proof. intros H1 H2. split; [exact H1|]. rewrite H2. intros X; contradiction. Qed.

Definition sPF (s : sstate) : Prop := cb_ok L (s_cb s) /\ c_pending (s_c s) = [].

Lemma stored_turn_PF s :
  sPF s ->
  match stored_turn s with
  | inl s' => sPF s' /\ ofs_of (s_cb s) <= ofs_of (s_cb s')
  | inr (Ret (SRet ok c cb src)) => PF c cb /\ ofs_of (s_cb s) <= ofs_of cb
  | inr _ => True
  end.
Proof.
  intros [Hok Hpe]. unfold stored_turn.
  destruct ((0 <? s_inleft s) || _).
  2:{ split; [apply PF_nil; [exact Hok|exact Hpe]|lia]. }
  destruct (csub C_MAX_MATCH (s_ls s) 320) as [room| |]; try exact I.
  destruct ((c_flush (s_c s) =? TF_NONE) && _).
  { split; [apply PF_nil; [exact Hok|exact Hpe]|lia]. }
  destruct (csub _ 1 321) as [ls1| |]; try exact I.
  destruct (31744 <? s_bw s + 1).
  - match goal with |- context [flush_block ?cc ?cbb ?ff] => destruct (flush_block cc cbb ff) as [fb| |] eqn:Ef end; try exact I.
    destruct fb as [nn c2 cb2|c2 cb2|]; try exact I.
    + apply flush_block_PF in Ef; [|exact Hok|cbn [set_la mkc c_pending]; exact Hpe].
      destruct Ef as (H1 & H2 & H3).
      destruct (negb (nn =? 0)%Z) eqn:Enz.
      * split; [exact H1|exact H2].
      * apply negb_false_iff, Z.eqb_eq in Enz. cbn [s_c s_cb]. split; [|exact H2].
        split; [exact (proj1 H1)|]. rewrite H3 in Enz. cbn [s_c]. destruct (c_pending c2); [reflexivity|cbn [length] in Enz; lia].
    + exfalso. unfold flush_block in Ef.
      repeat match type of Ef with
             | bind ?X _ = _ => destruct X eqn:?; cbn [bind] in Ef; try discriminate Ef
             end.
      match type of Ef with context [match ?r with Some _ => _ | None => _ end] => destruct r end; [|discriminate Ef].
      repeat match type of Ef with
             | bind ?X _ = _ => destruct X eqn:?; cbn [bind] in Ef; try discriminate Ef
             end.
      match type of Ef with context [flush_output ?a ?b ?d] => destruct (flush_output a b d) as [[nn c3] cb3] end.
      discriminate Ef.
  - cbn [s_c s_cb set_la mkc c_pending]. split; [split; [exact Hok|exact Hpe]|lia].
Qed.

Lemma compress_stored_PF c cb input ok c' cb' src :
  cb_ok L cb -> c_pending c = [] -> compress_stored c cb input = Ret (SRet ok c' cb' src) ->
  PF c' cb' /\ ofs_of cb <= ofs_of cb'.
Proof.
  intros Hok Hpe. unfold compress_stored.
  set (s0 := {| s_c := c; s_cb := cb; s_in := input; s_inleft := N.of_nat (length input); s_src := 0;
               s_bw := c_total_bytes c; s_ls := c_la_size c; s_lp := c_la_pos c |}).
  pose proof (iter_pow_inv stored_turn (fun s => sPF s /\ ofs_of cb <= ofs_of (s_cb s))
               (fun r => match r with Ret (SRet ok c1 cb1 src1) => PF c1 cb1 /\ ofs_of cb <= ofs_of cb1 | _ => True end)) as H.
  assert (H1 : forall s s', sPF s /\ ofs_of cb <= ofs_of (s_cb s) -> stored_turn s = inl s' -> sPF s' /\ ofs_of cb <= ofs_of (s_cb s')).
  { intros s s' [Hs Ho] Ht. pose proof (stored_turn_PF s Hs) as X. rewrite Ht in X. destruct X as [X1 X2]. split; [exact X1|lia]. }
  assert (H2 : forall s r, sPF s /\ ofs_of cb <= ofs_of (s_cb s) -> stored_turn s = inr r ->
               match r with Ret (SRet ok c1 cb1 src1) => PF c1 cb1 /\ ofs_of cb <= ofs_of cb1 | _ => True end).
  { intros s r [Hs Ho] Ht. pose proof (stored_turn_PF s Hs) as X. rewrite Ht in X.
    destruct r as [[ok1 c1 cb1 src1|]| |]; try exact I. destruct X as [X1 X2]. split; [exact X1|lia]. }
  specialize (H H1 H2 40%nat s0 (conj (conj Hok Hpe) (N.le_refl _))).
  destruct (iter_pow 40 stored_turn s0) as [s'|rr]; [discriminate|].
  intros E. subst rr. exact H.
Qed.

End P.
