(* C12 at level 0: at a flush point - a call sequence after which the compressor model holds no
   pending output, no look-ahead and no open block - the bytes delivered so far are, after the
   zlib header, a clean sequence of whole non-final stored blocks which the specification's
   prefix decoder expands to exactly the input consumed so far. *)
From Coq Require Import NArith ZArith List Bool Lia Arith.
From MZ.lib Require Import Arr Bits Mach.
From MZ.spec Require Import Adler DeflateSpec.
From MZ.model Require Import DeflateCore Oracle.
From MZ.proofs Require Import DeflateCounts StoredSpec StoredModel StoredRoundtrip StoredStream StoredSchedules.
Import ListNotations.
Local Open Scope N_scope.

(* a caller that has not finished: state, unconsumed input, bytes received, bytes consumed *)
Fixpoint run_calls (c : comp) (rest : list N) (sched : list (N * N * N)) (acc : list N) (consumed : N)
  : res (option (comp * list N * list N * N)) :=
  match sched with
  | [] => Ret (Some (c, rest, acc, consumed))
  | (m, out_len, f) :: sched' =>
      cr <- compress c (firstn (N.to_nat m) rest) out_len f ;;
      match cr with
      | CUnmodelled => Ret None
      | CRet r =>
          match r_status r with
          | TOkay => run_calls (r_comp r) (skipn (N.to_nat (r_in r)) rest) sched' (acc ++ r_out r) (consumed + r_in r)
          | _ => Ret None
          end
      end
  end.

Section Prefix.
Variables (data : list N) (flags wb : N).
Hypothesis Hraw : hasf flags FLAG_RAW = true.
Hypothesis Hwb : wb <= 15.

Lemma run_calls_GI2 sched : forall c rest acc n c' rest' acc' n',
  Forall (fun it => legal_flush (snd it)) sched ->
  GI2 data flags wb acc c n -> (c_finished c = false -> rest = skipn (N.to_nat n) data) ->
  run_calls c rest sched acc n = Ret (Some (c', rest', acc', n')) ->
  GI2 data flags wb acc' c' n'.
Proof.
  induction sched as [|[[m out_len] f] sched IH]; intros c rest acc n c' rest' acc' n' Hleg HGI Hrest; cbn [run_calls].
  { intros H; inversion H; subst. exact HGI. }
  inversion Hleg as [|it its Hf Hl']; subst. cbn [snd] in Hf.
  destruct (compress c (firstn (N.to_nat m) rest) out_len f) as [cr| |] eqn:Ec; cbn [bind]; try discriminate.
  destruct cr as [r|]; [|discriminate].
  assert (Hpre : c_finished c = false ->
                 n <= N.min (n + m) (total data) /\ N.min (n + m) (total data) <= total data /\
                 firstn (N.to_nat m) rest = slice data n (N.min (n + m) (total data))).
  { intros Hnf. destruct HGI as [_ [(A & HBI & _ & Hn & _)|[Hfin _]]]; [|congruence].
    destruct HBI as (_ & Hle & _). subst n.
    split; [lia|]. split; [lia|].
    rewrite (Hrest Hnf). unfold slice. rewrite firstn_min, skipn_length. f_equal. unfold total in *. lia. }
  pose proof (compress_GI2 data flags wb Hraw Hwb acc c n _ _ out_len f r Hf HGI Hpre Ec) as Hp.
  unfold call_post2 in Hp.
  destruct (r_status r); try discriminate.
  apply (IH (r_comp r) _ _ _ c' rest' acc' n' Hl' Hp).
  intros Hnf.
  assert (Hcf : c_finished c = false).
  { destruct HGI as [_ [(A0 & (Hfx & _) & _)|[Hfin Hfw]]]; [destruct Hfx as (_ & _ & _ & _ & X & _); exact X|].
    exfalso. clear - Hfin Hnf Ec. unfold compress, compress_inner in Ec.
    destruct (negb _ || negb _); [inversion Ec; subst r; cbn in Hnf; congruence|].
    change (c_finished (set_flush c f)) with (c_finished c) in Ec. rewrite Hfin, orb_true_r in Ec.
    destruct (flush_output_buffer (set_flush c f) (CBuf out_len [] 0)) as [[st c1] cb1] eqn:Ef.
    apply fob_vout in Ef. destruct Ef as (_ & _ & Ec1 & _).
    inversion Ec; subst r; clear Ec. cbn [r_comp] in Hnf. rewrite Ec1 in Hnf. cbn in Hnf. congruence. }
  rewrite (Hrest Hcf), skipn_skipn_add. f_equal. lia.
Qed.

(* the specification's prefix decoder on whole stored blocks followed by nothing *)
Lemma parse_prefix_stored chunks : forall fuel q acc,
  chunks_ok chunks -> (length chunks < length fuel)%nat ->
  parse_prefix fuel (bits_of_bytes (concat (map (stored_block false) chunks))) (8 * q) acc
  = (frev (rev (map (sblk false) chunks) ++ acc),
     8 * (q + N.of_nat (length (concat (map (stored_block false) chunks)))), true, false).
Proof.
  induction chunks as [|c cs IH]; intros fuel q acc Hc Hf.
  - destruct fuel as [|f fuel]; [cbn in Hf; lia|]. cbn [map concat bits_of_bytes parse_prefix length rev app].
    unfold parse_block. cbn [take_bits]. f_equal. f_equal. f_equal. lia.
  - destruct fuel as [|f fuel]; [cbn in Hf; lia|].
    inversion Hc as [|c' cs' [Hc1 Hc2] Hcs]; subst.
    cbn [map concat parse_prefix].
    rewrite parse_stored_block by assumption.
    cbn [sblk mkblock b_final].
    replace (8 * q + 40 + 8 * N.of_nat (length c)) with (8 * (q + 5 + N.of_nat (length c))) by lia.
    rewrite IH by (try assumption; cbn [length] in Hf; lia).
    f_equal. f_equal. f_equal.
    + cbn [map rev]. rewrite <- app_assoc. reflexivity.
    + rewrite app_length, Nat2N.inj_add, stored_block_length. lia.
Qed.

Lemma all_tokens_nonfinal chunks : all_tokens (map (sblk false) chunks) = map Lit (concat chunks).
Proof.
  unfold all_tokens. induction chunks as [|c cs IH]; cbn [map flat_map concat]; [reflexivity|].
  rewrite IH. cbn [sblk mkblock b_tokens]. rewrite map_app. reflexivity.
Qed.

Theorem prefix_stored chunks :
  chunks_ok chunks ->
  let body := concat (map (stored_block false) chunks) in
  prefix_spec body = (Some (concat chunks), 8 * N.of_nat (length body), true, false, map (sblk false) chunks).
Proof.
  intros Hc body. unfold prefix_spec.
  change 0 with (8 * 0) at 1. unfold body.
  rewrite parse_prefix_stored; [|exact Hc|].
  2:{ cbn [length]. assert (length chunks <= length (bits_of_bytes (concat (map (stored_block false) chunks))))%nat; [|lia].
      clear. induction chunks as [|c cs IH]; [apply Nat.le_0_l|].
      cbn [map concat length]. unfold stored_block at 1. cbn [app bits_of_bytes].
      rewrite app_length, bits_of_bytes_app, app_length. unfold byte_bits at 1. cbn [byte_bits_aux length]. lia. }
  rewrite app_nil_r, frev_rev, rev_involutive, N.add_0_l.
  unfold expand. rewrite all_tokens_nonfinal, expand_lits. cbn [length].
  rewrite app_nil_r, Nat.sub_0_r, firstn_all, frev_rev, rev_involutive. reflexivity.
Qed.

(* the flush-point theorem *)
Theorem flush_point_decodable sched c' rest' acc' n' :
  bytes_ok data ->
  Forall (fun it => legal_flush (snd it)) sched ->
  run_calls (comp_new flags wb) data sched [] 0 = Ret (Some (c', rest', acc', n')) ->
  c_finished c' = false -> c_pending c' = [] -> c_total_bytes c' = 0 -> c_la_size c' = 0 ->
  n' <= N.of_nat (length data) /\
  exists body blocks,
    acc' = (if c_block_index c' =? 0 then [] else hdr flags wb) ++ body /\
    prefix_spec body = (Some (firstn (N.to_nat n') data), 8 * N.of_nat (length body), true, false, blocks).
Proof.
  intros Hbytes Hleg Hrun Hnf Hpe Htb Hls.
  apply (run_calls_GI2 sched _ _ _ _ _ _ _ _ Hleg (GI2_init data flags wb)) in Hrun; [|intros _; reflexivity].
  destruct Hrun as [_ [(A & HBI & _ & Hn & _)|[Hfin _]]]; [|congruence].
  destruct HBI as (_ & Hle & Hlp & _ & _ & _ & _ & (chunks & Hsm & Hz & Hcc & Henc)).
  cbn [cb_written rev_append app] in Henc. rewrite Hpe, app_nil_r in Henc.
  assert (Hcb : c_cbdp c' = n') by lia.
  split; [unfold total in Hle; lia|].
  assert (Hb : bytes_ok (concat chunks)) by (rewrite Hcc; apply bytes_ok_firstn, Hbytes).
  pose proof (chunks_ok_of chunks Hsm Hb) as Hc.
  exists (concat (map (stored_block false) chunks)), (map (sblk false) chunks).
  split.
  - rewrite Henc. unfold ENC. destruct (c_block_index c' =? 0) eqn:E.
    + apply N.eqb_eq in E. rewrite (Hz E). reflexivity.
    + reflexivity.
  - rewrite (prefix_stored chunks Hc), Hcc, Hcb. reflexivity.
Qed.
End Prefix.
