(* The streaming wrapper inflate() (inflate/stream.rs, model InflateStream.inflate) on streams of stored
   blocks: for every sequence of calls that do not ask for Finish or a full flush - any input slices
   (unconsumed input offered again), any output lengths including zero - every call returns; the bytes it
   hands out extend what was delivered before to a longer prefix of the payload; its code is MZ_OK,
   MZ_STREAM_END or (only when called without input while none is pending) MZ_BUF_ERROR; MZ_STREAM_END
   comes only with the whole payload delivered, and stays (C13 for this sub-language and these flush
   values).  The decoder runs on the wrapper's 32 KiB ring at a moving offset: InflateStoredGen.call_gen. *)
From Coq Require Import NArith ZArith List Bool Lia Arith.
From MZ.lib Require Import Arr Bits Mach.
From MZ.spec Require Import Adler DeflateSpec Zlib.
From MZ.gen Require GenZlib.
From MZ.model Require Import InflateCore InflateStream.
From MZ.proofs Require Import IterPow StoredSpec InflateStoredZ InflateStoredChunks InflateStoredTotal InflateStoredGen.
From MZ.proofs Require ZlibHeader InflateBasic InflateStoredApi.
Import ListNotations.
Local Open Scope N_scope.
Arguments N.add : simpl never.
Arguments N.sub : simpl never.
Arguments N.mul : simpl never.
Arguments N.ltb : simpl never.
Arguments N.leb : simpl never.
Arguments N.eqb : simpl never.
Arguments N.land : simpl never.
Arguments N.min : simpl never.

(* the flag word inflate() hands to the decoder when the call is not a Finish *)
Definition sflags0 (fmt : dformat) : N :=
  let f0 := match fmt with FZlib => F_COMPUTE | _ => F_IGNORE end in
  match fmt with FRaw => f0 | _ => N.lor f0 F_ZLIB end.
Definition sfl (fmt : dformat) : N := N.lor (sflags0 fmt) F_MORE.
Definition zl_of (fmt : dformat) : bool := match fmt with FRaw => false | _ => true end.

Lemma sfl_has fmt :
  has (sfl fmt) F_ZLIB = zl_of fmt /\ has (sfl fmt) F_STOPBB = false /\ has (sfl fmt) F_MORE = true /\
  has (sfl fmt) F_NONWRAP = false.
Proof. destruct fmt; vm_compute; repeat split; reflexivity. Qed.

Lemma skipn_skipn_plus {T} : forall (l : list T) n m, skipn n (skipn m l) = skipn (m + n) l.
Proof.
  induction l as [|x l IH]; intros n m; [destruct n, m; reflexivity|].
  destruct m as [|m]; [reflexivity|]. cbn [skipn plus]. apply IH.
Qed.

Lemma land_dictmask x : N.land x (DICT - 1) = x mod 32768.
Proof. change (DICT - 1) with (N.ones 15). rewrite N.land_ones. reflexivity. Qed.

Lemma window_le_dict cmf : cmf < 256 -> forall flg, valid_header (Z.of_N cmf) flg = true -> (header_window (Z.of_N cmf) <= 32768)%Z.
Proof.
  intros Hc flg Hv. unfold valid_header in Hv. rewrite !andb_true_iff in Hv. destruct Hv as [[[_ _] H7] _].
  apply Z.leb_le in H7. unfold header_window.
  assert (0 <= Z.of_N cmf / 16)%Z by (apply Z.div_pos; lia).
  change 32768%Z with (2 ^ 15)%Z. apply Z.pow_le_mono_r; lia.
Qed.

Section IS.
Variable fmt : dformat.
Notation fl := (sfl fmt).
Notation zl := (zl_of fmt).
Variables (cmf flg A : N).
Hypothesis Hcmf : cmf < 256.
Hypothesis Hflg : flg < 256.
Hypothesis Hvalid : valid_header (Z.of_N cmf) (Z.of_N flg) = true.
Hypothesis HA : A < 2 ^ 32.
Variable B : list blk.
Hypothesis HB : shapeB B.
Variable extra : list N.
Notation fin := (final_status fl zl A B).

Lemma fin_cases : fin = Done \/ fin = Adler32Mismatch.
Proof. unfold final_status. destruct (has fl F_IGNORE || negb zl || (adler32 1 (InflateStoredChunks.P B) =? A)); auto. Qed.

Notation PB := (InflateStoredChunks.P B).
Notation DI' := (InflateStoredGen.DI fl zl cmf flg A B extra).

(* the bytes decoded into the ring but not yet handed to the caller *)
Definition pend (s : istream) : list N := aget_list (is_dict s) (is_ofs s) (is_avail s).

(* the wrapper object between calls: [Dd] is everything handed to the caller so far *)
Definition WI (s : istream) (rem Dd : list N) : Prop :=
  DI' (is_dec s) rem (Dd ++ pend s) /\
  alen (is_dict s) = DICT /\ is_ofs s + is_avail s <= DICT /\ is_ofs s < DICT /\
  is_flushed s = false /\ is_fmt s = fmt /\
  (is_last s = NeedsMoreInput \/ is_last s = HasMoreOutput \/ (is_last s = fin /\ d_state (is_dec s) = DoneForever)).

Lemma WI_prefix s rem Dd : WI s rem Dd -> exists X, Dd ++ X = PB.
Proof.
  intros (HD & _). pose proof (DI_prefix _ _ _ _ _ _ _ _ _ _ HD) as H.
  exists (pend s ++ skipn (length (Dd ++ pend s)) PB). rewrite app_assoc. rewrite H at 1. apply firstn_skipn.
Qed.

(* one decoder call on the ring, nothing pending *)
Lemma ring_call s input fut Dd :
  WI s (input ++ fut) Dd -> is_avail s = 0 -> N.of_nat (length input) < 2 ^ 57 ->
  exists r, decompress (is_dec s) input (is_dict s) (is_ofs s) USIZE_MAX fl = Ret r /\
    InflateStoredGen.CallPost fl zl cmf flg A B extra input fut Dd (is_dict s) (is_ofs s) USIZE_MAX r.
Proof.
  intros (HD & Hal & Hoa & Hofs & _) Hav Hshort.
  destruct (sfl_has fmt) as (HZ & HSB & HM & HNW).
  unfold pend in HD. rewrite Hav in HD. change (aget_list (is_dict s) (is_ofs s) 0) with (@nil N) in HD. rewrite app_nil_r in HD.
  apply (call_gen fl zl HZ HSB cmf flg A Hcmf Hflg Hvalid HA B HB extra (is_dec s) input fut Dd (is_dict s) (is_ofs s) USIZE_MAX
           (or_introl HM) HD).
  - unfold InflateBasic.geometry_ok. rewrite HNW, Hal. apply andb_true_intro. split; [reflexivity|apply N.leb_le; lia].
  - rewrite Hal. unfold DICT, USIZE_MAX. lia.
  - apply header_accepted_ring; try assumption.
    + rewrite Hal. unfold DICT. lia.
    + rewrite Hal. unfold DICT, USIZE_MAX. lia.
    + rewrite Hal. pose proof (window_le_dict cmf Hcmf _ Hvalid). unfold DICT. lia.
  - exact Hshort.
Qed.

(* handing out part of what one decoder call wrote *)
Lemma push_split dict ofs cr_out room :
  ofs + cr_out <= DICT ->
  let n := N.min cr_out room in
  aget_list dict ofs cr_out = aget_list dict ofs n ++ aget_list dict (N.land (ofs + n) (DICT - 1)) (cr_out - n).
Proof.
  intros H n. replace cr_out with (n + (cr_out - n)) at 1 by (unfold n; lia).
  rewrite aget_list_split. f_equal.
  destruct (N.eq_dec (cr_out - n) 0) as [E|E]; [rewrite E; reflexivity|].
  rewrite land_dictmask, N.mod_small by (unfold n, DICT in *; lia). reflexivity.
Qed.

Definition TurnPost (fut Dd : list N) (l l' : lstate) (bytes : list N) : Prop :=
  exists k, k <= N.of_nat (length (l_in l)) /\ l_in l' = skipn (N.to_nat k) (l_in l) /\ l_tin l' = l_tin l + k /\
    N.of_nat (length bytes) <= l_room l /\ l_room l' = l_room l - N.of_nat (length bytes) /\
    l_rout l' = rev_append bytes (l_rout l) /\
    WI (l_s l') (l_in l' ++ fut) (Dd ++ bytes).

Definition CodeOk (orig : N) (code : Z) (l' : lstate) : Prop :=
  code = MZ_OK \/ (code = MZ_STREAM_END /\ is_last (l_s l') = Done /\ is_avail (l_s l') = 0) \/
  (code = MZ_ERR_BUF /\ orig = 0) \/ (code = MZ_ERR_DATA /\ fin = Adler32Mismatch).

Lemma turn_ok flush orig l fut Dd :
  flush <> FL_FINISH ->
  WI (l_s l) (l_in l ++ fut) Dd -> is_avail (l_s l) = 0 -> N.of_nat (length (l_in l)) < 2 ^ 57 ->
  match loop_turn fl flush orig l with
  | inl l' => exists bytes, TurnPost fut Dd l l' bytes /\ is_avail (l_s l') = 0 /\ bytes <> []
  | inr (Ret (code, l')) => exists bytes, TurnPost fut Dd l l' bytes /\ CodeOk orig code l'
  | inr _ => False
  end.
Proof.
  intros Hfl HW Hav Hshort.
  destruct (ring_call (l_s l) (l_in l) fut Dd HW Hav Hshort) as (r & Ed & HCP).
  pose proof HW as (HD & Hal & Hoa & Hofs & Hflu & Hfmt & Hlast).
  unfold InflateStoredGen.CallPost in HCP. cbv zeta in HCP.
  destruct HCP as (Hal' & Hle & Hfit & Hcases).
  rewrite Hal in Hal', Hfit.
  assert (Hfit' : is_ofs (l_s l) + cr_out r <= DICT) by (unfold USIZE_MAX, DICT in *; lia).
  unfold loop_turn. rewrite Ed.
  cbn [is_ofs is_avail mk_is].
  replace (DICT <? is_ofs (l_s l) + N.min (cr_out r) (l_room l)) with false by (symmetry; apply N.ltb_ge; lia).
  unfold push_dict_out. cbn [is_ofs is_avail is_dict is_dec is_first is_flushed is_fmt is_last mk_is].
  set (n := N.min (cr_out r) (l_room l)).
  set (bytes := aget_list (cr_buf r) (is_ofs (l_s l)) n).
  assert (Hbl : N.of_nat (length bytes) = n) by (unfold bytes; apply length_aget_list).
  set (s2 := mk_is (cr_dec r) (cr_buf r) (N.land (is_ofs (l_s l) + n) (DICT - 1)) (cr_out r - n)
                   (is_first (l_s l)) (is_flushed (l_s l)) (is_fmt (l_s l)) (cr_status r)).
  set (l' := {| l_s := s2; l_in := skipn (N.to_nat (cr_in r)) (l_in l); l_room := l_room l - N.of_nat (length bytes);
                l_tin := l_tin l + cr_in r; l_rout := rev_append bytes (l_rout l) |}).
  (* the wrapper invariant after the turn, whatever the status *)
  assert (HWI' : forall Dnew, DI' (cr_dec r) (skipn (N.to_nat (cr_in r)) (l_in l) ++ fut) (Dd ++ aget_list (cr_buf r) (is_ofs (l_s l)) (cr_out r)) ->
            (cr_status r = NeedsMoreInput \/ cr_status r = HasMoreOutput \/ (cr_status r = fin /\ d_state (cr_dec r) = DoneForever)) ->
            Dnew = Dd ++ bytes -> WI s2 (l_in l' ++ fut) Dnew).
  { intros Dnew HD' Hst ->. unfold WI, pend, s2, l'. cbn [is_dec is_dict is_ofs is_avail is_flushed is_fmt is_last mk_is l_in l_s].
    split.
    - rewrite <- app_assoc. unfold bytes, n. rewrite <- (push_split (cr_buf r) (is_ofs (l_s l)) (cr_out r) (l_room l) Hfit'). exact HD'.
    - split; [exact Hal'|]. split.
      + rewrite land_dictmask. pose proof (N.mod_le (is_ofs (l_s l) + n) 32768 ltac:(lia)).
        destruct (N.eq_dec (cr_out r - n) 0) as [E0|E0]; [rewrite E0; pose proof (N.mod_lt (is_ofs (l_s l) + n) 32768 ltac:(lia)); unfold DICT; lia|].
        rewrite N.mod_small by (unfold n, DICT in *; lia). unfold n in *. lia.
      + split; [rewrite land_dictmask; apply N.mod_lt; lia|]. split; [exact Hflu|]. split; [exact Hfmt|exact Hst]. }
  assert (HTP : forall Dnew, WI s2 (l_in l' ++ fut) Dnew -> Dnew = Dd ++ bytes -> TurnPost fut Dd l l' bytes).
  { intros Dnew HW' ->. exists (cr_in r). unfold l'. cbn [l_in l_tin l_room l_rout l_s].
    split; [exact Hle|]. split; [reflexivity|]. split; [reflexivity|]. split; [rewrite Hbl; unfold n; lia|].
    split; [reflexivity|]. split; [reflexivity|exact HW']. }
  fold bytes. fold s2. fold l'.
  destruct Hcases as [(Hs & HD' & Hnmi & Hhmo)|(Hs & Hcnt & Hout & HD' & Hdf)].
  - destruct Hs as [Hs|Hs].
    + (* the slice is used up *)
      destruct (Hnmi Hs) as [Hfut Hin].
      assert (HW' := HWI' _ HD' (or_introl Hs) eq_refl).
      rewrite Hs. cbn [status_eqb status_code is_neg Z.eqb Z.ltb Z.compare Pos.compare Pos.compare_cont Pos.eqb andb orb negb].
      assert (Hemp : l_in l' = []).
      { unfold l'. cbn [l_in]. rewrite Hin, Nat2N.id. apply skipn_all. }
      destruct (orig =? 0) eqn:Eo.
      * exists bytes. split; [exact (HTP _ HW' eq_refl)|]. right. right. left. split; [reflexivity|apply N.eqb_eq; exact Eo].
      * replace (flush =? FL_FINISH) with false by (symmetry; apply N.eqb_neq; exact Hfl).
        rewrite Hemp. cbn [orb].
        exists bytes. split; [exact (HTP _ HW' eq_refl)|]. left. reflexivity.
    + (* the ring is full up to its end, or the decoder waits for room *)
      assert (HW' := HWI' _ HD' (or_intror (or_introl Hs)) eq_refl).
      rewrite Hs. cbn [status_eqb status_code is_neg Z.eqb Z.ltb Z.compare Pos.compare Pos.compare_cont Pos.eqb andb orb negb].
      replace (flush =? FL_FINISH) with false by (symmetry; apply N.eqb_neq; exact Hfl).
      match goal with |- context [if ?b then _ else _] => destruct b eqn:Estop end.
      * exists bytes. split; [exact (HTP _ HW' eq_refl)|]. left. reflexivity.
      * apply orb_false_iff in Estop. destruct Estop as [E1 E2]. apply orb_false_iff in E1. destruct E1 as [E1 E3].
        apply negb_false_iff, N.eqb_eq in E2. apply N.eqb_neq in E3.
        exists bytes. split; [exact (HTP _ HW' eq_refl)|]. split; [unfold l', s2; cbn [l_s is_avail mk_is]; exact E2|].
        specialize (Hhmo Hs). rewrite Hal in Hhmo.
        assert (Hn : n = cr_out r) by (unfold n in *; lia).
        intros X. assert (length bytes = 0%nat) by (rewrite X; reflexivity).
        unfold USIZE_MAX, DICT in *. lia.
  - (* the stream is finished *)
    assert (HW' := HWI' _ HD' (or_intror (or_intror (conj Hs Hdf))) eq_refl).
    destruct fin_cases as [Hf|Hf]; rewrite Hf in Hs.
    + rewrite Hs. cbn [status_eqb status_code is_neg Z.eqb Z.ltb Z.compare Pos.compare Pos.compare_cont Pos.eqb andb orb negb].
      replace (flush =? FL_FINISH) with false by (symmetry; apply N.eqb_neq; exact Hfl).
      cbn [orb].
      exists bytes. split; [exact (HTP _ HW' eq_refl)|].
      destruct (cr_out r - n =? 0) eqn:Ea; [right; left|left; reflexivity].
      split; [reflexivity|]. split; [unfold l', s2; cbn [l_s is_last mk_is]; exact Hs|unfold l', s2; cbn [l_s is_avail mk_is]; apply N.eqb_eq; exact Ea].
    + (* ... with the wrong checksum *)
      rewrite Hs. cbn [status_eqb status_code is_neg Z.eqb Z.ltb Z.compare Pos.compare Pos.compare_cont Pos.eqb andb orb negb].
      exists bytes. split; [exact (HTP _ HW' eq_refl)|]. right. right. right. split; [reflexivity|exact Hf].
Qed.

Lemma TurnPost_trans fut Dd l l1 l2 b1 b2 :
  TurnPost fut Dd l l1 b1 -> TurnPost fut (Dd ++ b1) l1 l2 b2 -> TurnPost fut Dd l l2 (b1 ++ b2).
Proof.
  intros (k1 & H1 & H2 & H3 & H4 & H5 & H6 & H7) (k2 & G1 & G2 & G3 & G4 & G5 & G6 & G7).
  exists (k1 + k2).
  assert (Hl1 : N.of_nat (length (l_in l1)) + k1 = N.of_nat (length (l_in l))) by (rewrite H2, skipn_length; lia).
  split; [lia|]. split; [rewrite G2, H2, skipn_skipn_plus; f_equal; lia|]. split; [lia|].
  rewrite app_length. split; [lia|]. split; [lia|].
  split; [rewrite G6, H6, !rev_append_rev, rev_app_distr, app_assoc; reflexivity|].
  rewrite app_assoc. exact G7.
Qed.

(* the loop inside one inflate() call: it ends, by the number of payload bytes still to deliver *)
Lemma loop_steps flush orig fut : flush <> FL_FINISH -> forall k l Dd,
  (length PB - length Dd < k)%nat ->
  WI (l_s l) (l_in l ++ fut) Dd -> is_avail (l_s l) = 0 -> N.of_nat (length (l_in l)) < 2 ^ 57 ->
  exists code l' bytes, steps (loop_turn fl flush orig) k l = inr (Ret (code, l')) /\
    TurnPost fut Dd l l' bytes /\ CodeOk orig code l'.
Proof.
  intros Hfl. induction k as [|k IH]; intros l Dd Hk HW Hav Hshort; [lia|].
  cbn [steps]. pose proof (turn_ok flush orig l fut Dd Hfl HW Hav Hshort) as HT.
  destruct (loop_turn fl flush orig l) as [l1|[[code l1]| |]].
  - destruct HT as (b1 & HTP & Hav1 & Hne).
    pose proof HTP as (k1 & H1 & H2 & _ & _ & _ & _ & HW1).
    destruct (WI_prefix _ _ _ HW1) as (X & HX).
    assert (Hlen : (length (Dd ++ b1) <= length PB)%nat) by (rewrite <- HX, !app_length; lia).
    assert (Hb : (0 < length b1)%nat) by (destruct b1; [contradiction|cbn [length]; lia]).
    rewrite app_length in Hlen.
    assert (Hsh1 : N.of_nat (length (l_in l1)) < 2 ^ 57) by (rewrite H2, skipn_length; lia).
    destruct (IH l1 (Dd ++ b1) ltac:(rewrite app_length; lia) HW1 Hav1 Hsh1) as (code & l' & b2 & Hst & HTP2 & Hc).
    exists code, l', (b1 ++ b2). split; [exact Hst|]. split; [exact (TurnPost_trans _ _ _ _ _ _ _ HTP HTP2)|exact Hc].
  - destruct HT as (b1 & HTP & Hc). exists code, l1, b1. split; [reflexivity|]. split; assumption.
  - contradiction.
  - contradiction.
Qed.

Hypothesis HPlen : (length PB < 2 ^ 40)%nat.

Lemma loop_ok flush orig fut l Dd :
  flush <> FL_FINISH ->
  WI (l_s l) (l_in l ++ fut) Dd -> is_avail (l_s l) = 0 -> N.of_nat (length (l_in l)) < 2 ^ 57 ->
  exists code l' bytes, inflate_loop fl flush orig l = Ret (code, l') /\
    TurnPost fut Dd l l' bytes /\ CodeOk orig code l'.
Proof.
  intros Hfl HW Hav Hshort.
  destruct (loop_steps flush orig fut Hfl (S (length PB)) l Dd ltac:(lia) HW Hav Hshort) as (code & l' & bytes & Hst & HTP & Hc).
  exists code, l', bytes. split; [|split; assumption].
  unfold inflate_loop. rewrite (iter_pow_inr _ _ 40 l _ Hst ltac:(lia)). reflexivity.
Qed.

(* what one inflate() call leaves behind *)
Definition CallOk (input fut Dd : list N) (out_len : N) (r : sresult) : Prop :=
  sr_in r <= N.of_nat (length input) /\ N.of_nat (length (sr_out r)) <= out_len /\
  WI (sr_state r) (skipn (N.to_nat (sr_in r)) input ++ fut) (Dd ++ sr_out r) /\
  (sr_code r = MZ_OK \/
   (sr_code r = MZ_STREAM_END /\ Dd ++ sr_out r = PB /\ fin = Done) \/
   (sr_code r = MZ_ERR_BUF /\ input = []) \/
   (sr_code r = MZ_ERR_DATA /\ fin = Adler32Mismatch)).

Theorem inflate_call s input fut Dd out_len flush :
  flush <> FL_FINISH -> flush <> FL_FULL ->
  WI s (input ++ fut) Dd -> N.of_nat (length input) < 2 ^ 57 ->
  exists r, inflate s input out_len flush = Ret r /\ CallOk input fut Dd out_len r.
Proof.
  intros Hf1 Hf2 HW Hshort.
  pose proof HW as (HD & Hal & Hoa & Hofs & Hflu & Hfmt & Hlast).
  unfold inflate.
  replace (flush =? FL_FULL) with false by (symmetry; apply N.eqb_neq; exact Hf2).
  replace (flush =? FL_FINISH) with false by (symmetry; apply N.eqb_neq; exact Hf1).
  rewrite Hfmt. fold (sflags0 fmt).
  cbn [set_first set_flushed is_last is_flushed is_avail is_ofs is_dict is_dec is_first is_fmt mk_is].
  assert (Hl1 : status_eqb (is_last s) FailedCannotMakeProgress = false).
  { destruct Hlast as [->|[->|[-> _]]]; try reflexivity. destruct fin_cases as [->| ->]; reflexivity. }
  rewrite Hl1.
  destruct (is_neg (is_last s)) eqn:Hl2.
  { (* a checksum mismatch was reported before: the error is sticky *)
    assert (Hfm : fin = Adler32Mismatch).
    { destruct Hlast as [X|[X|[X _]]]; [rewrite X in Hl2; discriminate Hl2|rewrite X in Hl2; discriminate Hl2|].
      destruct fin_cases as [Y|Y]; [rewrite X, Y in Hl2; discriminate Hl2|exact Y]. }
    unfold err. eexists. split; [reflexivity|]. unfold CallOk. cbn [sr_code sr_in sr_out sr_state].
    change (N.to_nat 0) with 0%nat. cbn [skipn]. rewrite app_nil_r.
    split; [lia|]. split; [cbn [length]; lia|]. split; [|right; right; right; split; [reflexivity|exact Hfm]].
    unfold WI, pend. cbn [is_dec is_dict is_ofs is_avail is_flushed is_fmt is_last is_first mk_is].
    split; [exact HD|]. split; [exact Hal|]. split; [exact Hoa|]. split; [exact Hofs|]. split; [exact Hflu|]. split; [exact Hfmt|exact Hlast]. }
  rewrite Hflu. cbn [andb orb negb].
  fold (sfl fmt).
  set (s' := set_flushed (set_first s false) false).
  assert (HW' : WI s' (input ++ fut) Dd).
  { unfold WI, pend, s', set_flushed, set_first. cbn [is_dec is_dict is_ofs is_avail is_flushed is_fmt is_last is_first mk_is].
    split; [exact HD|]. split; [exact Hal|]. split; [exact Hoa|]. split; [exact Hofs|]. split; [reflexivity|]. split; [exact Hfmt|exact Hlast]. }
  destruct (is_avail s =? 0) eqn:Eav; cbn [negb].
  - (* nothing pending: run the decoder *)
    apply N.eqb_eq in Eav.
    set (l0 := {| l_s := s'; l_in := input; l_room := out_len; l_tin := 0; l_rout := [] |}).
    destruct (loop_ok flush (N.of_nat (length input)) fut l0 Dd Hf1 HW' Eav Hshort) as (code & l' & bytes & Hlo & HTP & Hc).
    fold l0. rewrite Hlo. cbn [bind].
    destruct HTP as (k & H1 & H2 & H3 & H4 & H5 & H6 & H7).
    cbn [l_in l_tin l_room l_rout l0] in *.
    eexists. split; [reflexivity|]. unfold CallOk. cbn [sr_code sr_in sr_out sr_state].
    rewrite H6, rev_append_rev, app_nil_r, rev_append_rev, app_nil_r, rev_involutive, H3, N.add_0_l.
    split; [exact H1|]. split; [exact H4|]. split; [rewrite <- H2; exact H7|].
    destruct Hc as [Hc|[(Hc & Hld & Ha0)|[(Hc & Ho)|(Hc & Hfm)]]]; [left; exact Hc|right; left|right; right; left|right; right; right].
    + split; [exact Hc|]. destruct H7 as (HD7 & _ & _ & _ & _ & _ & Hl7).
      destruct Hl7 as [X|[X|[Hlf Hdf]]]; [rewrite X in Hld; discriminate|rewrite X in Hld; discriminate|].
      destruct HD7 as ((_ & _ & HS7) & _). rewrite Hdf in HS7. unfold InflateStoredGen.ShR in HS7.
      destruct HS7 as (_ & _ & Hop & _). unfold pend in Hop. rewrite Ha0 in Hop.
      change (aget_list (is_dict (l_s l')) (is_ofs (l_s l')) 0) with (@nil N) in Hop. rewrite app_nil_r in Hop.
      split; [exact Hop|rewrite <- Hlf; exact Hld].
    + split; [exact Hc|]. destruct input; [reflexivity|cbn [length] in Ho; lia].
    + split; assumption.
  - (* bytes pending in the ring: hand them out first *)
    apply N.eqb_neq in Eav.
    unfold guard. replace (is_ofs s + N.min (is_avail s) out_len <=? DICT) with true by (symmetry; apply N.leb_le; lia).
    cbn [bind]. unfold push_dict_out, s', set_flushed, set_first. cbn [is_dec is_dict is_ofs is_avail is_first is_flushed is_fmt is_last mk_is].
    set (n := N.min (is_avail s) out_len).
    set (bytes := aget_list (is_dict s) (is_ofs s) n).
    eexists. split; [reflexivity|]. unfold CallOk. cbn [sr_code sr_in sr_out sr_state].
    change (N.to_nat 0) with 0%nat. cbn [skipn].
    split; [lia|]. split; [unfold bytes; rewrite length_aget_list; unfold n; lia|].
    assert (HWn : WI (mk_is (is_dec s) (is_dict s) (N.land (is_ofs s + n) (DICT - 1)) (is_avail s - n) false false (is_fmt s) (is_last s))
                     (input ++ fut) (Dd ++ bytes)).
    { unfold WI, pend. cbn [is_dec is_dict is_ofs is_avail is_flushed is_fmt is_last mk_is].
      split.
      - rewrite <- app_assoc. unfold bytes, n. rewrite <- (push_split (is_dict s) (is_ofs s) (is_avail s) out_len Hoa). exact HD.
      - split; [exact Hal|]. split.
        + rewrite land_dictmask. pose proof (N.mod_le (is_ofs s + n) 32768 ltac:(lia)).
          destruct (N.eq_dec (is_avail s - n) 0) as [E0|E0]; [rewrite E0; pose proof (N.mod_lt (is_ofs s + n) 32768 ltac:(lia)); unfold DICT; lia|].
          rewrite N.mod_small by (unfold n, DICT in *; lia). unfold n in *. lia.
        + split; [rewrite land_dictmask; apply N.mod_lt; lia|]. split; [reflexivity|]. split; [exact Hfmt|exact Hlast]. }
    split; [exact HWn|].
    destruct (status_eqb (is_last s) Done && (is_avail s - n =? 0)) eqn:Ee; [right; left|left; reflexivity].
    split; [reflexivity|]. apply andb_prop in Ee. destruct Ee as [Ee1 Ee2]. apply N.eqb_eq in Ee2.
    destruct Hlast as [X|[X|[Hlf Hdf]]]; [rewrite X in Ee1; discriminate|rewrite X in Ee1; discriminate|].
    assert (Hfd : fin = Done).
    { destruct fin_cases as [Y|Y]; [exact Y|]. rewrite Hlf, Y in Ee1. discriminate Ee1. }
    split; [|exact Hfd].
    destruct HWn as (((_ & _ & HS7) & _) & _). cbn [is_dec mk_is] in HS7. rewrite Hdf in HS7. unfold InflateStoredGen.ShR in HS7.
    destruct HS7 as (_ & _ & Hop & _). unfold pend in Hop. cbn [is_dict is_ofs is_avail mk_is] in Hop. rewrite Ee2 in Hop.
    change (aget_list (is_dict s) (N.land (is_ofs s + n) (DICT - 1)) 0) with (@nil N) in Hop. rewrite app_nil_r in Hop. exact Hop.
Qed.

(* a caller: every item is (new input slice, output length, flush value); input the previous call left is
   offered again; the codes and the bytes handed out are collected *)
Fixpoint sfeed (s : istream) (pending : list N) (calls : list (list N * N * N)) (acc : list N) (codes : list Z)
  : res (list Z * list N * istream) :=
  match calls with
  | [] => Ret (codes, acc, s)
  | (piece, out_len, flush) :: more =>
      let input := pending ++ piece in
      match inflate s input out_len flush with
      | Ret r => sfeed (sr_state r) (skipn (N.to_nat (sr_in r)) input) more (acc ++ sr_out r) (codes ++ [sr_code r])
      | Panic n => Panic n
      | OutOfFuel => OutOfFuel
      end
  end.

Definition code_ok (c : Z) : Prop := c = MZ_OK \/ c = MZ_STREAM_END \/ c = MZ_ERR_BUF \/ c = MZ_ERR_DATA.

Theorem sfeed_ok : forall calls s pending later acc codes,
  Forall (fun it : list N * N * N => snd it <> FL_FINISH /\ snd it <> FL_FULL) calls ->
  WI s (pending ++ concat (map (fun it => fst (fst it)) calls) ++ later) acc ->
  N.of_nat (length (pending ++ concat (map (fun it => fst (fst it)) calls))) < 2 ^ 57 ->
  Forall code_ok codes -> (In MZ_STREAM_END codes -> acc = PB /\ fin = Done) ->
  (In MZ_ERR_DATA codes -> fin = Adler32Mismatch) ->
  exists codes' acc' s', sfeed s pending calls acc codes = Ret (codes', acc', s') /\
    Forall code_ok codes' /\ acc' = firstn (length acc') PB /\
    (In MZ_STREAM_END codes' -> acc' = PB /\ fin = Done) /\ (In MZ_ERR_DATA codes' -> fin = Adler32Mismatch).
Proof.
  induction calls as [|[[piece out_len] flush] more IH]; intros s pending later acc codes Hfl HW Hshort Hck Hend Hed.
  - cbn [sfeed]. exists codes, acc, s. split; [reflexivity|]. split; [exact Hck|]. split; [|split; [exact Hend|exact Hed]].
    destruct (WI_prefix _ _ _ HW) as (X & HX). rewrite <- HX, firstn_app, Nat.sub_diag, firstn_all. cbn [firstn]. symmetry. apply app_nil_r.
  - cbn [sfeed]. cbn [map concat fst] in HW, Hshort.
    inversion Hfl as [|x xs [Hf1 Hf2] Hfl']; subst. cbn [snd] in Hf1, Hf2.
    assert (Hrem : pending ++ (piece ++ concat (map (fun it => fst (fst it)) more)) ++ later
                   = (pending ++ piece) ++ (concat (map (fun it => fst (fst it)) more) ++ later))
      by (rewrite <- !app_assoc; reflexivity).
    rewrite Hrem in HW.
    assert (Hsh1 : N.of_nat (length (pending ++ piece)) < 2 ^ 57) by (rewrite !app_length in *; lia).
    destruct (inflate_call s (pending ++ piece) _ acc out_len flush Hf1 Hf2 HW Hsh1) as (r & Er & Hin & Hout & HW' & Hcode).
    rewrite Er.
    assert (Hsk : N.of_nat (length (skipn (N.to_nat (sr_in r)) (pending ++ piece))) + sr_in r = N.of_nat (length (pending ++ piece)))
      by (rewrite skipn_length; lia).
    apply (IH (sr_state r) (skipn (N.to_nat (sr_in r)) (pending ++ piece)) later (acc ++ sr_out r) (codes ++ [sr_code r]) Hfl' HW').
    + rewrite !app_length in *. lia.
    + apply Forall_app. split; [exact Hck|]. constructor; [|constructor].
      destruct Hcode as [X|[[X _]|[[X _]|[X _]]]]; rewrite X; unfold code_ok; auto.
    + intros Hi. apply in_app_or in Hi. destruct Hi as [Hi|Hi].
      * (* the stream had ended before: nothing more can have been handed out *)
        destruct (Hend Hi) as [Hend1 Hend2]. split; [|exact Hend2].
        destruct (WI_prefix _ _ _ HW') as (X & HX). rewrite Hend1 in HX |- *.
        assert (Hl : length ((PB ++ sr_out r) ++ X) = length PB) by (rewrite HX; reflexivity).
        rewrite !app_length in Hl. destruct (sr_out r); [apply app_nil_r|cbn [length] in Hl; lia].
      * destruct Hi as [Hi|[]].
        destruct Hcode as [X|[[_ X]|[[X _]|[X _]]]]; [rewrite X in Hi; discriminate Hi|exact X|rewrite X in Hi; discriminate Hi|rewrite X in Hi; discriminate Hi].
    + intros Hi. apply in_app_or in Hi. destruct Hi as [Hi|Hi]; [exact (Hed Hi)|].
      destruct Hi as [Hi|[]].
      destruct Hcode as [X|[[X _]|[[X _]|[_ X]]]]; [rewrite X in Hi; discriminate Hi|rewrite X in Hi; discriminate Hi|rewrite X in Hi; discriminate Hi|exact X].
Qed.

End IS.

(* ------------------------------------------------------------------ the statement *)
Lemma pow40_nat n : N.of_nat n < 2 ^ 40 -> (n < 2 ^ 40)%nat.
Proof.
  intros H. apply Nat.compare_lt_iff. rewrite Nat2N.inj_compare. apply N.compare_lt_iff.
  rewrite Nat2N.inj_pow. exact H.
Qed.

(* any trailer value A: with the wrong one (and a format that checks it) the stream is never reported finished -
   MZ_DATA_ERROR instead, and it sticks *)
Theorem inflate_on_stored_streams_any_trailer fmt cmf flg A chunks last extra calls later :
  cmf < 256 -> flg < 256 -> valid_header (Z.of_N cmf) (Z.of_N flg) = true -> A < 2 ^ 32 ->
  chunks_ok chunks -> bytes_ok last -> N.of_nat (length last) <= 65535 ->
  let data := concat chunks ++ last in
  let zl := zl_of fmt in
  let stream := (if zl then [cmf; flg] else []) ++ stored_stream chunks last ++ (if zl then be32 A else []) in
  let offered := concat (map (fun it : list N * N * N => fst (fst it)) calls) in
  Forall (fun it : list N * N * N => snd it <> FL_FINISH /\ snd it <> FL_FULL) calls ->
  offered ++ later = stream ++ extra ->
  N.of_nat (length offered) < 2 ^ 57 -> N.of_nat (length data) < 2 ^ 40 ->
  exists codes acc s',
    sfeed (is_new fmt) [] calls [] [] = Ret (codes, acc, s') /\
    Forall code_ok codes /\ acc = firstn (length acc) data /\
    (In MZ_STREAM_END codes -> acc = data /\ (fmt = FZlib -> adler32 1 data = A)) /\
    (In MZ_ERR_DATA codes -> fmt = FZlib /\ adler32 1 data <> A).
Proof.
  intros Hcmf Hflg Hvalid HA Hc Hl1 Hl2 data zl stream offered Hfl Hcat Hshort Hlen.
  set (B := map (pair false) chunks ++ [(true, last)]).
  pose proof (shapeB_of chunks last Hc Hl1 Hl2) as HB. fold B in HB.
  assert (Hinput : stream ++ extra = InflateStoredZ.hz zl cmf flg ++ InflateStoredZ.encT zl A extra B).
  { unfold stream, InflateStoredZ.hz, InflateStoredZ.encT, tail, tailz, B. rewrite enc_of.
    destruct zl; cbn [app]; rewrite <- ?app_assoc; reflexivity. }
  assert (Hdata : data = InflateStoredChunks.P B) by (unfold data, InflateStoredChunks.P, B; rewrite pay_of; reflexivity).
  assert (HW : WI fmt cmf flg A B extra (is_new fmt) ([] ++ offered ++ later) []).
  { unfold WI, pend, is_new. cbn [is_dec is_dict is_ofs is_avail is_flushed is_fmt is_last app].
    change (aget_list (amake DICT 0) 0 0) with (@nil N).
    split; [rewrite Hcat, Hinput; apply InflateStoredGen.DI_init; exact HB|].
    split; [reflexivity|]. split; [unfold DICT; lia|]. split; [unfold DICT; lia|]. split; [reflexivity|]. split; [reflexivity|].
    left. reflexivity. }
  destruct (sfeed_ok fmt cmf flg A Hcmf Hflg Hvalid HA B HB extra
              ltac:(rewrite <- Hdata; apply pow40_nat; exact Hlen)
              calls (is_new fmt) [] later [] [] Hfl HW Hshort ltac:(constructor) ltac:(intros []) ltac:(intros []))
    as (codes & acc & s' & Hs & H1 & H2 & H3 & H4).
  exists codes, acc, s'. rewrite <- Hdata in H2, H3. split; [exact Hs|]. split; [exact H1|]. split; [exact H2|].
  assert (Hf : final_status (sfl fmt) zl A B = (if match fmt with FZlib => (adler32 1 data =? A) | _ => true end then Done else Adler32Mismatch)).
  { unfold final_status. rewrite <- Hdata. unfold zl. destruct fmt; cbn [zl_of negb].
    - change (has (sfl FZlib) F_IGNORE) with false. reflexivity.
    - change (has (sfl FZlibIgnore) F_IGNORE) with true. reflexivity.
    - rewrite orb_true_r. reflexivity. }
  fold zl in H3, H4. rewrite Hf in H3, H4.
  split.
  - intros Hi. destruct (H3 Hi) as [H31 H32]. split; [exact H31|]. intros E. rewrite E in H32.
    destruct (adler32 1 data =? A) eqn:E'; [apply N.eqb_eq; exact E'|discriminate H32].
  - intros Hi. specialize (H4 Hi). destruct fmt; try discriminate H4.
    split; [reflexivity|]. destruct (adler32 1 data =? A) eqn:E; [discriminate H4|apply N.eqb_neq; exact E].
Qed.

(* the right trailer (or none): never a data error *)
Theorem inflate_on_stored_streams fmt cmf flg chunks last extra calls later :
  cmf < 256 -> flg < 256 -> valid_header (Z.of_N cmf) (Z.of_N flg) = true ->
  chunks_ok chunks -> bytes_ok last -> N.of_nat (length last) <= 65535 ->
  let data := concat chunks ++ last in
  let zl := zl_of fmt in
  let stream := (if zl then [cmf; flg] else []) ++ stored_stream chunks last ++ (if zl then be32 (adler32 1 data) else []) in
  let offered := concat (map (fun it : list N * N * N => fst (fst it)) calls) in
  Forall (fun it : list N * N * N => snd it <> FL_FINISH /\ snd it <> FL_FULL) calls ->
  offered ++ later = stream ++ extra ->
  N.of_nat (length offered) < 2 ^ 57 -> N.of_nat (length data) < 2 ^ 40 ->
  exists codes acc s',
    sfeed (is_new fmt) [] calls [] [] = Ret (codes, acc, s') /\
    Forall (fun c => c = MZ_OK \/ c = MZ_STREAM_END \/ c = MZ_ERR_BUF) codes /\
    acc = firstn (length acc) data /\ (In MZ_STREAM_END codes -> acc = data).
Proof.
  intros Hcmf Hflg Hvalid Hc Hl1 Hl2 data zl stream offered Hfl Hcat Hshort Hlen.
  destruct (inflate_on_stored_streams_any_trailer fmt cmf flg (adler32 1 data) chunks last extra calls later Hcmf Hflg Hvalid
              (adler32_lt _ _ adler_valid_1) Hc Hl1 Hl2 Hfl Hcat Hshort Hlen) as (codes & acc & s' & Hs & H1 & H2 & H3 & H4).
  exists codes, acc, s'. split; [exact Hs|]. split; [|split; [exact H2|intros Hi; exact (proj1 (H3 Hi))]].
  rewrite Forall_forall in *. intros c Hc'. destruct (H1 c Hc') as [X|[X|[X|X]]]; auto.
  exfalso. rewrite X in Hc'. destruct (H4 Hc') as [_ Hne]. apply Hne. reflexivity.
Qed.

(* ------------------------------------------------------------------ the one-call use: Finish on a fresh object *)
Definition sfl_finish (fmt : dformat) : N := N.lor (sflags0 fmt) F_NONWRAP.

Lemma sfl_finish_has fmt :
  has (sfl_finish fmt) F_ZLIB = zl_of fmt /\ has (sfl_finish fmt) F_STOPBB = false /\
  has (sfl_finish fmt) F_NONWRAP = true.
Proof. destruct fmt; vm_compute; repeat split; reflexivity. Qed.

(* inflate(fresh, whole stream (and anything after it), output with one spare byte, Finish): the shortcut that
   decodes straight into the caller's buffer - this is how mz_uncompress uses the wrapper *)
Theorem inflate_finish_fresh fmt cmf flg chunks last extra out_len :
  cmf < 256 -> flg < 256 -> valid_header (Z.of_N cmf) (Z.of_N flg) = true ->
  chunks_ok chunks -> bytes_ok last -> N.of_nat (length last) <= 65535 ->
  let data := concat chunks ++ last in
  let zl := zl_of fmt in
  let stream := (if zl then [cmf; flg] else []) ++ stored_stream chunks last ++ (if zl then be32 (adler32 1 data) else []) in
  N.of_nat (length data) < out_len -> out_len <= USIZE_MAX -> N.of_nat (length (stream ++ extra)) < 2 ^ 57 ->
  exists r, inflate (is_new fmt) (stream ++ extra) out_len FL_FINISH = Ret r /\
    sr_code r = MZ_STREAM_END /\ sr_in r = N.of_nat (length stream) /\ sr_out r = data.
Proof.
  intros Hcmf Hflg Hvalid Hc Hl1 Hl2 data zl stream Hroom Hrep Hshort.
  set (B := map (pair false) chunks ++ [(true, last)]).
  pose proof (shapeB_of chunks last Hc Hl1 Hl2) as HB. fold B in HB.
  set (A := adler32 1 data).
  assert (Hinput : stream ++ extra = InflateStoredZ.hz zl cmf flg ++ InflateStoredZ.encT zl A extra B).
  { unfold stream, InflateStoredZ.hz, InflateStoredZ.encT, tail, tailz, B. rewrite enc_of. fold A.
    destruct zl; cbn [app]; rewrite <- ?app_assoc; reflexivity. }
  assert (Hdata : data = InflateStoredChunks.P B) by (unfold data, InflateStoredChunks.P, B; rewrite pay_of; reflexivity).
  destruct (sfl_finish_has fmt) as (HZ & HSB & HNW).
  assert (Hfin : final_status (sfl_finish fmt) zl A B = Done).
  { unfold final_status. rewrite <- Hdata. unfold A. rewrite N.eqb_refl, !orb_true_r. reflexivity. }
  destruct (InflateStoredApi.whole_stream_one_call (sfl_finish fmt) zl HZ HSB HNW cmf flg A Hcmf Hflg Hvalid
              (adler32_lt _ _ adler_valid_1) B HB extra (amake out_len 0))
    as (res & Hd & Hs & Hin & Hout & Hbuf).
  { cbn [alen amake]. rewrite <- Hdata. exact Hroom. }
  { cbn [alen amake]. exact Hrep. }
  { rewrite <- Hinput. exact Hshort. }
  unfold inflate. change (FL_FINISH =? FL_FULL) with false. cbv iota.
  cbn [is_new is_fmt is_first is_last is_flushed set_first set_flushed set_last set_dec mk_is is_dec is_dict is_ofs is_avail].
  change (status_eqb NeedsMoreInput FailedCannotMakeProgress) with false.
  change (is_neg NeedsMoreInput) with false. cbn [andb orb negb].
  change (FL_FINISH =? FL_FINISH) with true. cbn [andb orb negb].
  fold (sflags0 fmt). fold (sfl_finish fmt).
  rewrite Hinput, Hd. cbn [bind]. rewrite Hs, Hfin.
  change (status_eqb Done FailedCannotMakeProgress) with false. change (is_neg Done) with false.
  change (status_eqb Done Done) with true. cbn [negb].
  eexists. split; [reflexivity|]. cbn [sr_code sr_in sr_out].
  split; [reflexivity|]. split.
  - rewrite <- Hinput, app_length in Hin. lia.
  - rewrite Hout, Hdata. exact Hbuf.
Qed.
