(* The decoder model M_inf decodes every stream of byte-aligned stored blocks to the bytes the
   blocks carry (one call, flat output buffer with enough room, no zlib framing): the first
   instance of the simulation M_inf -> specification, for the sub-language level 0 emits. *)
From Coq Require Import NArith ZArith List Bool Lia Arith.
From MZ.lib Require Import Arr Bits Mach.
From MZ.spec Require Import Adler DeflateSpec.
From MZ.model Require Import InflateCore.
From MZ.proofs Require Import IterPow StoredSpec.
Import ListNotations.
Local Open Scope N_scope.
Arguments N.add : simpl never.
Arguments N.sub : simpl never.
Arguments N.mul : simpl never.
Arguments N.ltb : simpl never.
Arguments N.leb : simpl never.
Arguments N.eqb : simpl never.
Arguments N.land : simpl never.
Arguments N.shiftr : simpl never.
Arguments N.shiftl : simpl never.
Arguments N.lor : simpl never.

Section ReadBits.
Variable flags : N.

Lemma read_bits_have c amount k :
  amount <= nb c -> amount < 64 ->
  read_bits flags c amount k
  = k (set_bits c (N.shiftr (bb c) amount) (nb c - amount)) (N.land (bb c) (N.ones amount)).
Proof.
  intros H1 H2. unfold read_bits. cbn [read_bits_f].
  replace (nb c <? amount) with false by (symmetry; apply N.ltb_ge; exact H1).
  unfold guard. replace (amount <? 64) with true by (symmetry; apply N.ltb_lt; exact H2). reflexivity.
Qed.

Lemma read_bits_one_byte c b rest amount k :
  nb c = 0 -> bb c = 0 -> inp c = b :: rest -> b < 256 -> 0 < amount -> amount <= 8 ->
  read_bits flags c amount k
  = k (set_bits (set_in c rest (ileft c - 1)) (N.shiftr b amount) (8 - amount)) (N.land b (N.ones amount)).
Proof.
  intros Hn Hb Hi Hlt H0 H8. unfold read_bits. cbn [read_bits_f].
  rewrite Hn. replace (0 <? amount) with true by (symmetry; apply N.ltb_lt; exact H0).
  unfold read_byte. rewrite Hi. unfold push_bits, guard.
  cbn [set_in mk nb bb]. rewrite Hn, Hb.
  change (0 <? 64) with true. cbn [bind].
  rewrite N.shiftl_0_r, N.lor_0_l, N.add_0_l.
  rewrite (N.mod_small b U64) by (unfold U64; lia).
  cbn [read_bits_f set_bits mk nb bb].
  replace (8 <? amount) with false by (symmetry; apply N.ltb_ge; exact H8).
  replace (amount <? 64) with true by (symmetry; apply N.ltb_lt; lia). cbn [bind].
  reflexivity.
Qed.
End ReadBits.

Lemma length_aget_list a i n : N.of_nat (length (aget_list a i n)) = n.
Proof. unfold aget_list. rewrite length_aget_list_nat. lia. Qed.

(* reading back what has been written *)
Lemma aget_list_aset_list o p0 pos bytes :
  p0 <= pos ->
  aget_list (aset_list o pos bytes) p0 (pos + N.of_nat (length bytes) - p0)
  = aget_list o p0 (pos - p0) ++ bytes.
Proof.
  intros H. apply (nth_ext _ _ 0 0).
  - unfold aget_list. rewrite app_length, !length_aget_list_nat. lia.
  - unfold aget_list. rewrite length_aget_list_nat. intros k Hk.
    rewrite nth_aget_list_nat by exact Hk.
    destruct (Nat.lt_ge_cases k (N.to_nat (pos - p0))) as [H1|H2].
    + rewrite app_nth1 by (rewrite length_aget_list_nat; exact H1).
      rewrite nth_aget_list_nat by exact H1. apply aget_aset_list_out. lia.
    + rewrite app_nth2 by (rewrite length_aget_list_nat; exact H2).
      rewrite length_aget_list_nat.
      replace (p0 + N.of_nat k) with (pos + N.of_nat (k - N.to_nat (pos - p0))) by lia.
      apply aget_aset_list_in. lia.
Qed.

Section Stored.
Variable flags : N.
Hypothesis HZ : has flags F_ZLIB = false.
Hypothesis HSB : has flags F_STOPBB = false.

Definition blk := (bool * list N)%type.
Definition blk_ok (b : blk) : Prop := bytes_ok (snd b) /\ N.of_nat (length (snd b)) <= 65535.

(* all blocks but the last are non-final *)
Inductive shapeB : list blk -> Prop :=
  | sh_last ch : blk_ok (true, ch) -> shapeB [(true, ch)]
  | sh_cons ch bs : blk_ok (false, ch) -> shapeB bs -> shapeB ((false, ch) :: bs).

Definition shapeT (f : bool) (bs : list blk) : Prop :=
  (f = true /\ bs = []) \/ (f = false /\ shapeB bs).

Definition enc (bs : list blk) : list N := concat (map (fun b => stored_block (fst b) (snd b)) bs).
Definition pay (bs : list blk) : list N := concat (map snd bs).

Variable B : list blk.
Hypothesis HB : shapeB B.

Definition in_buf : list N := enc B.
Definition in_len : N := N.of_nat (length in_buf).
Definition P : list N := pay B.

Variables (omax mask p0 : N).
Hypothesis Hroom : p0 + N.of_nat (length P) <= omax.

Definition outpre (c : cfg) : list N := aget_list (out c) p0 (pos c - p0).
Definition hdr4 (ch : list N) : list N :=
  le16 (N.of_nat (length ch)) ++ le16 (65535 - N.of_nat (length ch)).

Definition Sh (c : cfg) : Prop :=
  match st c with
  | Start | ReadBlockHeader =>
      (st c = ReadBlockHeader -> nb c = 0 /\ bb c = 0) /\
      exists bs, shapeB bs /\ inp c = enc bs /\ outpre c ++ pay bs = P
  | BlockTypeNoCompression =>
      nb c = 5 /\ bb c = 0 /\ exists f ch bs, shapeT f bs /\ blk_ok (f, ch) /\ d_finish (rr c) = b2n f /\
      inp c = hdr4 ch ++ ch ++ enc bs /\ outpre c ++ ch ++ pay bs = P
  | RawHeader =>
      nb c = 0 /\ bb c = 0 /\ exists f ch bs, shapeT f bs /\ blk_ok (f, ch) /\ d_finish (rr c) = b2n f /\
      ctr c <= 4 /\ inp c = skipn (N.to_nat (ctr c)) (hdr4 ch) ++ ch ++ enc bs /\
      (forall j, (j < N.to_nat (ctr c))%nat -> aget (d_raw (rr c)) (N.of_nat j) = nth j (hdr4 ch) 0) /\
      outpre c ++ ch ++ pay bs = P
  | RawMemcpy1 | RawMemcpy2 =>
      nb c = 0 /\ bb c = 0 /\ exists f rest bs, shapeT f bs /\ d_finish (rr c) = b2n f /\
      ctr c = N.of_nat (length rest) /\ inp c = rest ++ enc bs /\ outpre c ++ rest ++ pay bs = P /\
      (st c = RawMemcpy2 -> rest <> [])
  | BlockDone =>
      nb c = 0 /\ bb c = 0 /\ exists f bs, shapeT f bs /\ d_finish (rr c) = b2n f /\
      inp c = enc bs /\ outpre c ++ pay bs = P
  | DoneForever => nb c = 0 /\ inp c = [] /\ outpre c = P
  | _ => False
  end.

Definition Inv (c : cfg) : Prop :=
  ileft c = N.of_nat (length (inp c)) /\ (exists pre, in_buf = pre ++ inp c) /\
  p0 <= pos c /\ pos c <= omax /\ omax <= alen (out c) /\ Sh c.

Definition Post (r : res (status * cfg)) : Prop :=
  match r with
  | Ret (s, c) => s = Done /\ nb c = 0 /\ inp c = [] /\ ileft c = 0 /\ outpre c = P /\ p0 <= pos c /\ pos c <= omax
  | _ => True
  end.

Lemma length_outpre c : p0 <= pos c -> N.of_nat (length (outpre c)) = pos c - p0.
Proof. intros H. unfold outpre. apply length_aget_list. Qed.

Lemma shapeB_nonempty bs : shapeB bs -> bs <> [].
Proof. intros H; inversion H; discriminate. Qed.

Lemma shapeB_split bs : shapeB bs -> exists f ch bs', bs = (f, ch) :: bs' /\ shapeT f bs' /\ blk_ok (f, ch).
Proof.
  intros H. inversion H; subst.
  - exists true, ch, []. split; [reflexivity|]. split; [left; split; reflexivity|assumption].
  - exists false, ch, bs0. split; [reflexivity|]. split; [right; split; [reflexivity|assumption]|assumption].
Qed.

Notation stepf := (step flags in_buf in_len omax mask).

Definition StepOk (r : res (action * cfg)) : Prop :=
  match r with
  | Ret (ANone, c') => Inv c'
  | Ret (AJump s, c') => Inv (set_st c' s)
  | Ret (AEnd s, c') => Post (Ret (s, c'))
  | _ => True
  end.

Lemma b2n_le1 f : b2n f <= 1. Proof. destruct f; cbn; lia. Qed.

Lemma st_start c : Inv c -> st c = Start -> StepOk (stepf c).
Proof.
  intros (Hi & Hpre & Hp0 & Hpm & Hom & HS) E. unfold Sh in HS. rewrite E in HS.
  destruct HS as (_ & bs & Hsh & Hin & Hout).
  unfold step. rewrite E, HZ. unfold jump, StepOk, Inv, Sh.
  cbn [set_st mk st inp ileft out pos nb bb rr].
  repeat split; try assumption.
  exists bs. repeat split; assumption.
Qed.

Lemma st_rbh c : Inv c -> st c = ReadBlockHeader -> StepOk (stepf c).
Proof.
  intros (Hi & (pre & Hpre) & Hp0 & Hpm & Hom & HS) E. unfold Sh in HS. rewrite E in HS.
  destruct HS as (Hnb & bs & Hsh & Hin & Hout). destruct (Hnb eq_refl) as [Hn Hb].
  destruct (shapeB_split bs Hsh) as (f & ch & bs' & -> & HT & Hok).
  unfold enc in Hin. cbn [map concat fst snd] in Hin. unfold stored_block in Hin at 1. cbn [app] in Hin.
  unfold step. rewrite E.
  rewrite (read_bits_one_byte flags c (b2n f) _ 3 _ Hn Hb Hin) by (pose proof (b2n_le1 f); lia).
  assert (Hbits : N.land (b2n f) (N.ones 3) = b2n f) by (destruct f; reflexivity).
  assert (Hshr : N.shiftr (b2n f) 3 = 0) by (destruct f; reflexivity).
  rewrite Hbits, Hshr. cbv zeta.
  assert (Hfin : N.land (b2n f) 1 = b2n f) by (destruct f; reflexivity).
  assert (Hbt : N.land (N.shiftr (b2n f) 1) 3 = 0) by (destruct f; reflexivity).
  cbn [d_block_type r_blk upd_dec set_rr set_bits set_in mk rr]. rewrite Hbt. change (0 =? 0) with true. cbv iota.
  unfold jump, StepOk, Inv, Sh.
  cbn [set_st set_rr set_bits set_in mk st inp ileft out pos nb bb rr d_finish r_blk upd_dec].
  rewrite Hi, Hin. cbn [length].
  split; [lia|]. split; [exists (pre ++ [b2n f]); rewrite Hpre, Hin, <- !app_assoc; cbn [app]; reflexivity|].
  repeat split; try assumption.
  exists f, ch, bs'. rewrite Hfin. destruct Hok as [Hok1 Hok2].
  split; [exact HT|]. split; [split; assumption|]. split; [reflexivity|]. split.
  - unfold hdr4. rewrite <- !app_assoc. reflexivity.
  - unfold pay in *. cbn [map concat snd] in Hout. exact Hout.
Qed.

Lemma st_btnc c : Inv c -> st c = BlockTypeNoCompression -> StepOk (stepf c).
Proof.
  intros (Hi & Hpre & Hp0 & Hpm & Hom & HS) E. unfold Sh in HS. rewrite E in HS.
  destruct HS as (Hn & Hb & f & ch & bs & HT & Hok & Hfin & Hin & Hout).
  unfold step. rewrite E. unfold pad_to_bytes. rewrite Hn. change (N.land 5 7) with 5.
  rewrite read_bits_have by (try rewrite Hn; lia). rewrite Hn, Hb.
  change (N.shiftr 0 5) with 0. change (5 - 5) with 0.
  unfold jump, StepOk, Inv, Sh.
  cbn [set_st set_ctr set_bits mk st inp ileft out pos nb bb rr ctr].
  repeat split; try assumption.
  exists f, ch, bs. change (N.to_nat 0) with 0%nat. cbn [skipn].
  destruct Hok as [Hok1 Hok2].
  repeat split; try assumption; try lia.
Qed.

Lemma skipn_nth_cons {A} (d : A) : forall (l : list A) k, (k < length l)%nat -> skipn k l = nth k l d :: skipn (S k) l.
Proof.
  induction l as [|x l IH]; intros k H; cbn [length] in H; [lia|].
  destruct k as [|k]; [reflexivity|]. cbn [skipn nth]. apply IH. lia.
Qed.

Lemma le16_value v : v < 65536 -> nth 0 (le16 v) 0 + 256 * nth 1 (le16 v) 0 = v.
Proof.
  intros H. unfold le16. cbn [nth]. rewrite (N.mod_small (v / 256)) by (apply N.div_lt_upper_bound; lia).
  pose proof (N.div_mod v 256 ltac:(lia)). lia.
Qed.

Lemma hdr4_length ch : length (hdr4 ch) = 4%nat.
Proof. reflexivity. Qed.

Lemma hdr4_bytes ch j : (j < 4)%nat -> nth j (hdr4 ch) 0 < 256.
Proof.
  intros H. unfold hdr4, le16. cbn [app].
  destruct j as [|[|[|[|j]]]]; cbn [nth]; try lia; apply N.mod_lt; lia.
Qed.

Lemma st_rawheader c : Inv c -> st c = RawHeader -> StepOk (stepf c).
Proof.
  intros (Hi & (pre & Hpre) & Hp0 & Hpm & Hom & HS) E. unfold Sh in HS. rewrite E in HS.
  destruct HS as (Hn & Hb & f & ch & bs & HT & [Hok1 Hok2] & Hfin & Hc4 & Hin & Hraw & Hout).
  cbn [snd] in Hok1, Hok2.
  unfold step. rewrite E.
  destruct (ctr c <? 4) eqn:Ek.
  - apply N.ltb_lt in Ek. rewrite Hn. change (negb (0 =? 0)) with false. cbv iota.
    rewrite (skipn_nth_cons 0 (hdr4 ch) (N.to_nat (ctr c))) in Hin by (rewrite hdr4_length; lia).
    cbn [app] in Hin. unfold read_byte. rewrite Hin.
    unfold StepOk, Inv, Sh.
    cbn [set_ctr set_rr set_in mk st inp ileft out pos nb bb rr ctr d_raw r_raw upd_dec d_finish].
    rewrite E, Hi, Hin. cbn [length].
    split; [lia|]. split.
    { exists (pre ++ [nth (N.to_nat (ctr c)) (hdr4 ch) 0]). rewrite Hpre, Hin, <- app_assoc. reflexivity. }
    repeat split; try assumption.
    exists f, ch, bs. split; [exact HT|]. split; [split; assumption|]. split; [exact Hfin|]. split; [lia|].
    split; [replace (N.to_nat (ctr c + 1)) with (S (N.to_nat (ctr c))) by lia; reflexivity|].
    split; [|exact Hout].
    intros j Hj. destruct (Nat.eq_dec j (N.to_nat (ctr c))) as [->|Hne].
    + rewrite N2Nat.id. apply aget_aset_same.
    + rewrite aget_aset_other by lia. apply Hraw. lia.
  - apply N.ltb_ge in Ek. assert (Hk4 : ctr c = 4) by lia. cbv zeta.
    rewrite Hk4 in *. change (N.to_nat 4) with 4%nat in *.
    assert (H0 := Hraw 0%nat ltac:(lia)). assert (H1 := Hraw 1%nat ltac:(lia)).
    assert (H2 := Hraw 2%nat ltac:(lia)). assert (H3 := Hraw 3%nat ltac:(lia)).
    change (N.of_nat 0) with 0 in H0. change (N.of_nat 1) with 1 in H1.
    change (N.of_nat 2) with 2 in H2. change (N.of_nat 3) with 3 in H3.
    rewrite H0, H1, H2, H3.
    set (len := N.of_nat (length ch)) in *.
    assert (Hlen : nth 0 (hdr4 ch) 0 + 256 * nth 1 (hdr4 ch) 0 = len).
    { unfold hdr4. fold len. change (nth 0 (le16 len ++ le16 (65535 - len)) 0) with (nth 0 (le16 len) 0).
      change (nth 1 (le16 len ++ le16 (65535 - len)) 0) with (nth 1 (le16 len) 0). apply le16_value. lia. }
    assert (Hchk : nth 2 (hdr4 ch) 0 + 256 * nth 3 (hdr4 ch) 0 = 65535 - len).
    { unfold hdr4. fold len. change (nth 2 (le16 len ++ le16 (65535 - len)) 0) with (nth 0 (le16 (65535 - len)) 0).
      change (nth 3 (le16 len ++ le16 (65535 - len)) 0) with (nth 1 (le16 (65535 - len)) 0). apply le16_value. lia. }
    rewrite Hlen, Hchk.
    replace (len + (65535 - len) =? 65535) with true by (symmetry; apply N.eqb_eq; lia). cbn [negb].
    assert (Hin' : inp c = ch ++ enc bs) by (rewrite Hin; reflexivity).
    destruct (len =? 0) eqn:E0.
    + apply N.eqb_eq in E0. assert (ch = []) by (destruct ch; [reflexivity|unfold len in E0; cbn [length] in E0; lia]). subst ch.
      unfold jump, StepOk, Inv, Sh.
      cbn [set_st set_ctr mk st inp ileft out pos nb bb rr ctr].
      repeat split; try assumption; eauto.
      exists f, bs. repeat split; assumption.
    + cbn [set_ctr mk nb]. rewrite Hn. change (negb (0 =? 0)) with false. cbv iota.
      unfold jump, StepOk, Inv, Sh.
      cbn [set_st set_ctr mk st inp ileft out pos nb bb rr ctr].
      repeat split; try assumption; eauto.
      exists f, ch, bs. repeat split; try assumption; try reflexivity. discriminate.
Qed.

Lemma room_for c rest tail :
  p0 <= pos c -> outpre c ++ rest ++ tail = P -> pos c + N.of_nat (length rest) <= omax.
Proof.
  intros Hp H. assert (E : length (outpre c ++ rest ++ tail) = length P) by (rewrite H; reflexivity).
  rewrite !app_length in E. pose proof (length_outpre c Hp). lia.
Qed.

Lemma st_memcpy1 c : Inv c -> st c = RawMemcpy1 -> StepOk (stepf c).
Proof.
  intros (Hi & Hpre & Hp0 & Hpm & Hom & HS) E. unfold Sh in HS. rewrite E in HS.
  destruct HS as (Hn & Hb & f & rest & bs & HT & Hfin & Hctr & Hin & Hout & _).
  unfold step. rewrite E. unfold bytes_left, csub.
  replace (pos c <=? omax) with true by (symmetry; apply N.leb_le; exact Hpm). cbn [bind].
  destruct (ctr c =? 0) eqn:E0.
  - apply N.eqb_eq in E0. assert (rest = []) by (destruct rest; [reflexivity|cbn [length] in Hctr; lia]). subst rest.
    unfold jump, StepOk, Inv, Sh. cbn [set_st mk st inp ileft out pos nb bb rr].
    repeat split; try assumption. exists f, bs. repeat split; assumption.
  - apply N.eqb_neq in E0. pose proof (room_for c rest (pay bs) Hp0 Hout) as Hr.
    replace (omax - pos c =? 0) with false by (symmetry; apply N.eqb_neq; lia).
    unfold jump, StepOk, Inv, Sh. cbn [set_st mk st inp ileft out pos nb bb rr ctr].
    repeat split; try assumption. exists f, rest, bs. repeat split; try assumption.
    intros _ X. subst rest. cbn [length] in Hctr. lia.
Qed.

Lemma st_memcpy2 c : Inv c -> st c = RawMemcpy2 -> StepOk (stepf c).
Proof.
  intros (Hi & (pre & Hpre) & Hp0 & Hpm & Hom & HS) E. unfold Sh in HS. rewrite E in HS.
  destruct HS as (Hn & Hb & f & rest & bs & HT & Hfin & Hctr & Hin & Hout & Hne).
  specialize (Hne eq_refl).
  assert (Hrl : 0 < N.of_nat (length rest)) by (destruct rest; [contradiction|cbn [length]; lia]).
  pose proof (room_for c rest (pay bs) Hp0 Hout) as Hr.
  unfold step. rewrite E.
  assert (Hil : N.of_nat (length rest) <= ileft c) by (rewrite Hi, Hin, app_length; lia).
  replace (0 <? ileft c) with true by (symmetry; apply N.ltb_lt; lia).
  unfold bytes_left, csub.
  replace (pos c <=? omax) with true by (symmetry; apply N.leb_le; exact Hpm). cbn [bind].
  replace (N.min (N.min (omax - pos c) (ileft c)) (ctr c)) with (N.of_nat (length rest)) by lia.
  unfold guard. replace (pos c + N.of_nat (length rest) <=? alen (out c)) with true by (symmetry; apply N.leb_le; lia).
  cbn [bind]. rewrite Nat2N.id.
  assert (Hfirst : firstn (length rest) (inp c) = rest) by (rewrite Hin, firstn_app, Nat.sub_diag, firstn_all; cbn [firstn]; apply app_nil_r).
  assert (Hskip : skipn (length rest) (inp c) = enc bs) by (rewrite Hin, skipn_app, skipn_all, Nat.sub_diag; reflexivity).
  cbv zeta. cbn [set_st set_ctr set_in set_out mk inp ileft ctr out pos].
  rewrite Hfirst, Hskip.
  unfold jump, StepOk, Inv, Sh.
  cbn [set_st set_ctr set_in set_out mk st inp ileft out pos nb bb rr ctr].
  split; [rewrite Hi, Hin, app_length; lia|]. split; [exists (pre ++ rest); rewrite Hpre, Hin, app_assoc; reflexivity|].
  split; [lia|]. split; [lia|]. split; [rewrite alen_aset_list; exact Hom|].
  split; [exact Hn|]. split; [exact Hb|].
  exists f, [], bs. split; [exact HT|]. split; [exact Hfin|]. split; [cbn [length]; lia|]. split; [reflexivity|].
  split; [|discriminate].
  unfold outpre. cbn [set_st set_ctr set_in set_out mk out pos].
  rewrite aget_list_aset_list by exact Hp0. cbn [app]. rewrite <- app_assoc. exact Hout.
Qed.

Lemma enc_nil : enc [] = []. Proof. reflexivity. Qed.
Lemma pay_nil : pay [] = []. Proof. reflexivity. Qed.

Lemma st_blockdone c : Inv c -> st c = BlockDone -> StepOk (stepf c).
Proof.
  intros (Hi & (pre & Hpre) & Hp0 & Hpm & Hom & HS) E. unfold Sh in HS. rewrite E in HS.
  destruct HS as (Hn & Hb & f & bs & HT & Hfin & Hin & Hout).
  unfold step. rewrite E, Hfin.
  destruct HT as [[-> ->]|[-> Hsh]].
  - (* the final block *)
    change (negb (b2n true =? 0)) with true. cbv iota.
    unfold pad_to_bytes. rewrite Hn. change (N.land 0 7) with 0.
    rewrite read_bits_have by (try rewrite Hn; lia). rewrite Hn, Hb. cbn [bind].
    change (N.shiftr 0 0) with 0. change (0 - 0) with 0.
    cbn [set_bits mk ileft nb bb inp].
    assert (Hlen : in_len = N.of_nat (length pre) + ileft c).
    { unfold in_len. rewrite Hpre, app_length, Hi. lia. }
    replace (in_len - ileft c) with (N.of_nat (length pre)) by lia.
    unfold undo_bytes. change (N.shiftr 0 3) with 0. rewrite N.min_0_l. change (N.shiftl 0 3) with 0. change (0 - 0) with 0.
    cbv zeta. rewrite N.sub_0_r, Nat2N.id.
    assert (Hsk : skipn (length pre) in_buf = inp c) by (rewrite Hpre, skipn_app, skipn_all, Nat.sub_diag; reflexivity).
    rewrite Hsk.
    cbn [set_bits set_in mk nb bb]. unfold guard. change (0 <? 64) with true. cbn [bind].
    change (N.land 0 (N.ones 0)) with 0. change (0 =? 0) with true. cbn [bind].
    rewrite HZ.
    unfold jump, StepOk, Inv, Sh. cbn [set_st set_bits set_in mk st inp ileft out pos nb bb rr].
    rewrite enc_nil in Hin. rewrite pay_nil, app_nil_r in Hout.
    replace (in_len - N.of_nat (length pre)) with (ileft c) by lia.
    repeat split; try assumption. exists pre. exact Hpre.
  - change (negb (b2n false =? 0)) with false. cbv iota. rewrite HSB.
    unfold jump, StepOk, Inv, Sh. cbn [set_st mk st inp ileft out pos nb bb rr].
    repeat split; try assumption; eauto.
Qed.

Lemma st_doneforever c : Inv c -> st c = DoneForever -> StepOk (stepf c).
Proof.
  intros (Hi & Hpre & Hp0 & Hpm & Hom & HS) E. unfold Sh in HS. rewrite E in HS.
  destruct HS as (Hn & Hin & Hout).
  unfold step. rewrite E. unfold StepOk, Post.
  repeat split; try assumption. rewrite Hi, Hin. reflexivity.
Qed.

Lemma step_ok c : Inv c -> StepOk (stepf c).
Proof.
  intros HI. destruct (st c) eqn:E;
    try (exfalso; destruct HI as (_ & _ & _ & _ & _ & HS); unfold Sh in HS; rewrite E in HS; exact HS).
  - apply st_start; assumption.
  - apply st_rbh; assumption.
  - apply st_btnc; assumption.
  - apply st_rawheader; assumption.
  - apply st_memcpy1; assumption.
  - apply st_memcpy2; assumption.
  - apply st_blockdone; assumption.
  - apply st_doneforever; assumption.
Qed.

Theorem run_stored c : Inv c -> Post (run flags in_buf in_len omax mask c).
Proof.
  intros HI. unfold run.
  pose proof (iter_pow_inv (turn flags in_buf in_len omax mask) Inv Post) as H.
  assert (H1 : forall s s', Inv s -> turn flags in_buf in_len omax mask s = inl s' -> Inv s').
  { intros s s' Hs Ht. unfold turn in Ht. pose proof (step_ok s Hs) as X. unfold StepOk in X.
    destruct (stepf s) as [[[| |] c']| |]; inversion Ht; subst; exact X. }
  assert (H2 : forall s r, Inv s -> turn flags in_buf in_len omax mask s = inr r -> Post r).
  { intros s r Hs Ht. unfold turn in Ht. pose proof (step_ok s Hs) as X. unfold StepOk in X.
    destruct (stepf s) as [[[| |] c']| |]; inversion Ht; subst; try exact X; exact I. }
  specialize (H H1 H2 62%nat c HI).
  destruct (iter_pow 62 (turn flags in_buf in_len omax mask) c) as [c'|r]; [exact I|exact H].
Qed.
End Stored.

(* ------------------------------------------------------------------ the call *)
Lemma shapeB_of chunks last :
  chunks_ok chunks -> bytes_ok last -> N.of_nat (length last) <= 65535 ->
  shapeB (map (pair false) chunks ++ [(true, last)]).
Proof.
  intros Hc Hl1 Hl2. induction chunks as [|c cs IH]; cbn [map app].
  - constructor. split; assumption.
  - inversion Hc as [|c' cs' [H1 H2] Hcs]; subst. constructor; [split; assumption|apply IH; exact Hcs].
Qed.

Lemma enc_of chunks last : enc (map (pair false) chunks ++ [(true, last)]) = stored_stream chunks last.
Proof.
  unfold enc. induction chunks as [|c cs IH]; cbn [map app concat fst snd stored_stream].
  - apply app_nil_r.
  - rewrite IH. reflexivity.
Qed.

Lemma pay_of chunks last : pay (map (pair false) chunks ++ [(true, last)]) = concat chunks ++ last.
Proof.
  unfold pay. induction chunks as [|c cs IH]; cbn [map app concat snd].
  - apply app_nil_r.
  - rewrite IH, app_assoc. reflexivity.
Qed.

Theorem decompress_stored_stream flags chunks last o res :
  has flags F_ZLIB = false -> has flags F_STOPBB = false -> has flags F_NONWRAP = true ->
  chunks_ok chunks -> bytes_ok last -> N.of_nat (length last) <= 65535 ->
  N.of_nat (length (concat chunks ++ last)) <= alen o -> alen o <= USIZE_MAX ->
  decompress dec_default (stored_stream chunks last) o 0 USIZE_MAX flags = Ret res ->
  cr_status res = Done /\
  cr_in res = N.of_nat (length (stored_stream chunks last)) /\
  cr_out res = N.of_nat (length (concat chunks ++ last)) /\
  aget_list (cr_buf res) 0 (cr_out res) = concat chunks ++ last.
Proof.
  intros HZ HSB HNW Hc Hl1 Hl2 Hroom Hrep.
  set (B := map (pair false) chunks ++ [(true, last)]).
  pose proof (shapeB_of chunks last Hc Hl1 Hl2) as HB. fold B in HB.
  rewrite <- (enc_of chunks last). rewrite <- (pay_of chunks last) in Hroom |- *. fold B. fold B in Hroom.
  unfold decompress. rewrite HNW.
  change (N.land ((USIZE_MAX + 1) mod U64) USIZE_MAX =? 0) with true.
  replace (alen o <? 0) with false by (symmetry; apply N.ltb_ge; lia). cbn [negb orb].
  set (omax := N.min (N.min (0 + USIZE_MAX) USIZE_MAX) (alen o)).
  assert (Hom : omax = alen o) by (unfold omax; unfold USIZE_MAX in *; lia).
  set (c0 := mk dec_default (d_state dec_default) (d_bit_buf dec_default) (d_num_bits dec_default) (d_dist dec_default)
                (d_counter dec_default) (d_num_extra dec_default) (enc B) (N.of_nat (length (enc B))) o 0).
  assert (HI : Inv B omax 0 c0).
  { unfold Inv, c0. cbn [mk ileft inp pos out]. split; [reflexivity|]. split; [exists []; reflexivity|].
    split; [lia|]. split; [lia|]. split; [lia|].
    unfold Sh. cbn [mk st dec_default d_state]. split; [discriminate|].
    exists B. split; [exact HB|]. split; [reflexivity|]. reflexivity. }
  pose proof (run_stored flags HZ HSB B omax USIZE_MAX 0 ltac:(unfold P; lia) c0 HI) as HP.
  unfold in_len, in_buf in HP.
  destruct (run flags (enc B) (N.of_nat (length (enc B))) omax USIZE_MAX c0) as [[s c]| |]; cbn [bind]; try discriminate.
  unfold Post in HP. destruct HP as (Hs & Hnb & Hinp & Hil & Hout & _ & Hpm).
  rewrite Hs. clear Hs s.
  rewrite Hil, Hnb, N.sub_0_r.
  unfold undo_bytes. change (N.shiftr 0 3) with 0. rewrite N.min_0_l. change (N.shiftl 0 3) with 0. change (0 - 0) with 0.
  unfold csub. replace (pos c <=? omax) with true by (symmetry; apply N.leb_le; exact Hpm). cbn [bind].
  unfold guard. change (0 <? 64) with true. cbn [bind].
  replace (0 <=? pos c) with true by (symmetry; apply N.leb_le; lia). cbn [bind].
  rewrite HZ. cbn [andb].
  assert (Hlen : N.of_nat (length (P B)) = pos c).
  { rewrite <- Hout. unfold outpre. rewrite length_aget_list. lia. }
  destruct (if has flags F_IGNORE then false else false || has flags F_COMPUTE);
    cbn [andb]; change (0 <=? status_code Done)%Z with true; cbv iota;
    replace (N.of_nat (length (enc B)) <=? N.of_nat (length (enc B))) with true by (symmetry; apply N.leb_le; lia);
    replace (0 <=? N.of_nat (length (enc B))) with true by (symmetry; apply N.leb_le; lia); cbn [bind];
    intros H; inversion H; subst res; clear H; cbn [cr_status cr_in cr_out cr_buf];
    unfold outpre, P in *; rewrite ?N.sub_0_r in *; (repeat split; try lia; exact Hout).
Qed.
