(* First facts about M_inf (model/InflateCore.v): parameter validation and absorbing
   failure states.  Both are statements over every decoder value, input, buffer and flag word. *)
From Coq Require Import NArith ZArith List Bool Lia.
From MZ.lib Require Import Arr Bits Mach.
From MZ.spec Require Import Adler.
From MZ.model Require Import InflateCore.
From MZ.proofs Require Import IterPow.
Import ListNotations.
Local Open Scope N_scope.

Definition geometry_ok (o : arr) (out_pos flags : N) : bool :=
  let mask := if has flags F_NONWRAP then USIZE_MAX else alen o - 1 in
  (N.land ((mask + 1) mod U64) mask =? 0) && (out_pos <=? alen o).

(* Unusable buffer geometry: parameter error, nothing consumed, nothing written, decoder and
   buffer untouched. *)
Theorem decompress_bad_geometry r inp o out_pos out_max flags :
  geometry_ok o out_pos flags = false ->
  decompress r inp o out_pos out_max flags
  = Ret {| cr_status := BadParam; cr_in := 0; cr_out := 0; cr_buf := o; cr_dec := r |}.
Proof.
  unfold geometry_ok, decompress. intros H.
  set (mask := if has flags F_NONWRAP then USIZE_MAX else alen o - 1) in *.
  apply andb_false_iff in H.
  destruct (N.land ((mask + 1) mod U64) mask =? 0) eqn:E1; cbn [negb orb].
  - destruct H as [H|H]; [discriminate|].
    apply N.leb_gt in H. apply N.ltb_lt in H. rewrite H. reflexivity.
  - reflexivity.
Qed.

Lemma turn_failure flags inp in_len omax mask c :
  is_failure (st c) = true ->
  turn flags inp in_len omax mask c = inr (Ret (Failed, c)).
Proof.
  intros H. unfold turn, step. destruct (st c); try discriminate H; reflexivity.
Qed.

Lemma run_failure flags inp in_len omax mask c :
  is_failure (st c) = true ->
  run flags inp in_len omax mask c = Ret (Failed, c).
Proof.
  intros H. unfold run.
  rewrite (iter_pow_inr (turn flags inp in_len omax mask) 1 62 c (Ret (Failed, c))).
  - reflexivity.
  - cbn [steps]. rewrite (turn_failure _ _ _ _ _ _ H). reflexivity.
  - apply pow2_ge1.
Qed.

Lemma undo_bytes_zero nbits : undo_bytes nbits 0 = (0, nbits).
Proof.
  unfold undo_bytes. rewrite N.min_0_r. change (N.shiftl 0 3) with 0. f_equal. lia.
Qed.

Lemma is_failure_not_done s : is_failure s = true -> s <> ReadAdler32.
Proof. destruct s; intros H; try discriminate; congruence. Qed.

(* Once a stream has failed the decoder keeps failing: status Failed, nothing consumed,
   nothing written, buffer untouched, state unchanged (only the bits of bit_buf above
   num_bits - which are not part of its value - are cleared). *)
Theorem decompress_failure_absorbing r inp o out_pos out_max flags :
  is_failure (d_state r) = true ->
  geometry_ok o out_pos flags = true ->
  alen o <= USIZE_MAX ->
  d_num_bits r < 64 ->
  exists r',
    decompress r inp o out_pos out_max flags
    = Ret {| cr_status := Failed; cr_in := 0; cr_out := 0; cr_buf := o; cr_dec := r' |}
    /\ d_state r' = d_state r /\ is_failure (d_state r') = true
    /\ d_num_bits r' = d_num_bits r
    /\ d_bit_buf r' = N.land (d_bit_buf r) (N.ones (d_num_bits r)).
Proof.
  intros Hf Hg Hlen Hnb. unfold geometry_ok in Hg. unfold decompress.
  set (mask := if has flags F_NONWRAP then USIZE_MAX else alen o - 1) in *.
  apply andb_true_iff in Hg. destruct Hg as [Hg1 Hg2].
  rewrite Hg1. cbn [negb orb].
  apply N.leb_le in Hg2.
  assert (Hlt : (alen o <? out_pos) = false) by (apply N.ltb_ge; exact Hg2).
  rewrite Hlt.
  set (c0 := mk r (d_state r) (d_bit_buf r) (d_num_bits r) (d_dist r) (d_counter r)
                (d_num_extra r) inp (N.of_nat (length inp)) o out_pos).
  rewrite (run_failure flags inp _ _ mask c0 Hf).
  cbn [bind]. subst c0. unfold mk. cbn [ileft nb pos bb st out rr dist ctr nex].
  rewrite N.sub_diag. change (0 mod U32) with 0. rewrite undo_bytes_zero.
  set (omax := N.min (N.min (out_pos + out_max) USIZE_MAX) (alen o)).
  assert (Hom : out_pos <= omax) by (unfold omax; unfold USIZE_MAX in *; lia).
  unfold csub at 1. rewrite (proj2 (N.leb_le _ _) Hom). cbn [bind].
  rewrite (proj2 (N.ltb_lt _ _) Hnb). cbn [guard bind].
  rewrite N.leb_refl. cbn [guard bind].
  change (0 <=? status_code Failed)%Z with false. rewrite andb_false_r.
  unfold csub. cbn [N.leb N.compare bind]. rewrite ?N.sub_diag.
  eexists; split; [reflexivity|]. unfold write_back. cbn [d_state d_num_bits d_bit_buf].
  repeat split; try reflexivity. exact Hf.
Qed.
