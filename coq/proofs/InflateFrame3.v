(* T_frame, the statement about decompress itself. *)
From Coq Require Import NArith ZArith List Bool Lia.
From MZ.lib Require Import Arr Bits Mach.
From MZ.spec Require Import Adler.
From MZ.model Require Import InflateCore.
From MZ.proofs Require Import IterPow InflateFrame InflateCopy InflateFrame2 InflateBasic.
Import ListNotations.
Local Open Scope N_scope.

Lemma run_post flags in_buf in_len omax mask o0 p0 c :
  in_len = N.of_nat (length in_buf) -> J omax o0 p0 c ->
  match run flags in_buf in_len omax mask c with
  | Ret (s, c') => J omax o0 p0 c' /\ A omax (AEnd s) c'
  | _ => True
  end.
Proof.
  intros Hlen HJ. unfold run.
  pose proof (iter_pow_inv (turn flags in_buf in_len omax mask) (J omax o0 p0)
               (fun r => match r with Ret (s, c') => J omax o0 p0 c' /\ A omax (AEnd s) c' | _ => True end)) as H.
  assert (H1 : forall s s', J omax o0 p0 s -> turn flags in_buf in_len omax mask s = inl s' -> J omax o0 p0 s').
  { intros s s' Hs Ht. unfold turn in Ht.
    pose proof (step_post flags in_buf in_len omax mask o0 p0 Hlen s Hs) as Hp.
    destruct (step flags in_buf in_len omax mask s) as [[a c1]| |]; try discriminate.
    destruct a; inversion Ht; subst; destruct Hp as [Hp _]; [exact Hp|apply J_set_st, Hp]. }
  assert (H2 : forall s r, J omax o0 p0 s -> turn flags in_buf in_len omax mask s = inr r ->
               match r with Ret (st, c') => J omax o0 p0 c' /\ A omax (AEnd st) c' | _ => True end).
  { intros s r Hs Ht. unfold turn in Ht.
    pose proof (step_post flags in_buf in_len omax mask o0 p0 Hlen s Hs) as Hp.
    destruct (step flags in_buf in_len omax mask s) as [[a c1]| |].
    - destruct a; inversion Ht; subst. exact Hp.
    - inversion Ht; subst. exact I.
    - inversion Ht; subst. exact I. }
  specialize (H H1 H2 62%nat c HJ).
  destruct (iter_pow 62 (turn flags in_buf in_len omax mask) c) as [c'|r]; [exact I|exact H].
Qed.

(* Every normal return of decompress_with_limit:
   - consumed <= offered input; written <= min(budget, len - out_pos); length unchanged;
   - every byte outside [out_pos, out_pos + written) is unchanged;
   - HasMoreOutput only with the granted window completely full;
   - NeedsMoreInput only with all offered input consumed. *)
Theorem decompress_frame r input o out_pos out_max flags res :
  alen o <= USIZE_MAX ->
  decompress r input o out_pos out_max flags = Ret res ->
  cr_in res <= N.of_nat (length input) /\
  cr_out res <= N.min out_max (alen o - out_pos) /\
  alen (cr_buf res) = alen o /\
  (forall i, i < out_pos \/ out_pos + cr_out res <= i -> aget (cr_buf res) i = aget o i) /\
  (cr_status res = HasMoreOutput -> cr_out res = N.min out_max (alen o - out_pos)) /\
  (cr_status res = NeedsMoreInput -> cr_in res = N.of_nat (length input)).
Proof.
  intros Hrep. unfold decompress.
  set (mask := if has flags F_NONWRAP then USIZE_MAX else alen o - 1).
  destruct (negb (N.land ((mask + 1) mod U64) mask =? 0) || (alen o <? out_pos)) eqn:Eg.
  - intros H; inversion H; subst; clear H. cbn [cr_in cr_out cr_buf cr_status].
    repeat split; try lia; try discriminate; try (intros; reflexivity).
  - apply orb_false_iff in Eg. destruct Eg as [_ Eg]. apply N.ltb_ge in Eg.
    set (in_len := N.of_nat (length input)).
    set (omax := N.min (N.min (out_pos + out_max) USIZE_MAX) (alen o)).
    set (c0 := mk r (d_state r) (d_bit_buf r) (d_num_bits r) (d_dist r) (d_counter r) (d_num_extra r)
                 input in_len o out_pos).
    assert (HJ0 : J omax o out_pos c0).
    { unfold J, c0. cbn [mk ileft inp out pos]. unfold omax. unfold USIZE_MAX in *.
      repeat split; try lia. }
    pose proof (run_post flags input in_len omax mask o out_pos c0 eq_refl HJ0) as Hr.
    destruct (run flags input in_len omax mask c0) as [[status c]| |]; cbn [bind]; try discriminate.
    destruct Hr as [(J1 & J2 & J3 & J4 & J5 & J6) [Ahmo Aeoi]].
    set (consumed0 := in_len - ileft c).
    destruct (match status with NeedsMoreInput | FailedCannotMakeProgress => (0, nb c) | _ => undo_bytes (nb c) (consumed0 mod U32) end)
      as [in_undo nb1] eqn:Eundo.
    unfold csub at 1. destruct (pos c <=? omax) eqn:Epos; cbn [bind]; [|discriminate].
    unfold guard. destruct (nb1 <? 64); cbn [bind]; [|discriminate].
    destruct (out_pos <=? pos c); cbn [bind]; [|discriminate].
    match goal with |- context [if ?b then (adler32 _ _, _) else _] => destruct b end.
    all: unfold csub; destruct (in_undo <=? consumed0) eqn:Eu; cbn [bind]; [|discriminate].
    all: intros H; inversion H; subst res; clear H; cbn [cr_in cr_out cr_buf cr_status].
    all: assert (Hout : pos c - out_pos <= N.min out_max (alen o - out_pos)) by (unfold omax in J3; unfold USIZE_MAX in *; lia).
    all: assert (Hin : consumed0 - in_undo <= in_len) by (unfold consumed0; lia).
    all: repeat split; try assumption; try congruence.
    all: try (intros i Hi; apply J6; lia).
    all: try (intros Hst).
    (* HasMoreOutput: either from the machine (window full) or from the override (left = 0) *)
    all: try (assert (Hfull : pos c = omax);
              [ destruct status; cbn in Hst;
                repeat match type of Hst with
                       | context [match st ?x with _ => _ end] => destruct (st x) eqn:?
                       | context [if ?b then _ else _] => destruct b eqn:?
                       end;
                try discriminate Hst; try (apply Ahmo; reflexivity);
                match goal with H : (_ - pos _ =? 0) = true |- _ =>
                  apply N.eqb_eq in H; apply N.leb_le in Epos; lia end
              | unfold omax in *; unfold USIZE_MAX in *; lia ]).
    (* NeedsMoreInput: all offered input consumed *)
    all: try (assert (Hnil : inp c = [] /\ in_undo = 0);
              [ destruct status; cbn in Hst;
                repeat match type of Hst with
                       | context [match st ?x with _ => _ end] => destruct (st x) eqn:?
                       | context [if ?b then _ else _] => destruct b eqn:?
                       end;
                try discriminate Hst;
                (split; [apply Aeoi; left; reflexivity|inversion Eundo; reflexivity])
              | destruct Hnil as [Hnil Hu]; rewrite Hnil in J1; cbn [length] in J1;
                subst in_undo; unfold consumed0; rewrite J1; lia ]).
Qed.
