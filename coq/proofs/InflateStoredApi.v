(* The one-shot entry points of the decoder model on streams of stored blocks: decompress_to_vec_inner
   (growing output vector) and decompress_slice_iter_to_slice (input given as a list of slices), both built
   on M_inf, return exactly the payload for EVERY such stream (raw or zlib with the right trailer, followed
   by arbitrary further bytes) - C03 for these entry points, and with the compressor model C01 on the two
   API-level functions. *)
From Coq Require Import NArith ZArith List Bool Lia Arith.
From MZ.lib Require Import Arr Bits Mach.
From MZ.spec Require Import Adler DeflateSpec Zlib.
From MZ.model Require Import InflateCore InflateStream.
From MZ.proofs Require Import IterPow StoredSpec InflateStoredZ InflateStoredChunks InflateStoredTotal.
Import ListNotations.
Local Open Scope N_scope.

Lemma has_lor_nonwrap flags : has (N.lor flags F_NONWRAP) F_NONWRAP = true.
Proof.
  unfold has, F_NONWRAP. apply negb_true_iff, N.eqb_neq. intros H.
  assert (T : N.testbit (N.land (N.lor flags 4) 4) 2 = true).
  { rewrite N.land_spec, N.lor_spec. change (N.testbit 4 2) with true. rewrite orb_true_r. reflexivity. }
  rewrite H in T. discriminate T.
Qed.

Lemma length_enc bs : length (enc bs) = (length (pay bs) + 5 * length bs)%nat.
Proof.
  unfold enc, pay. induction bs as [|[f ch] bs IH]; [reflexivity|].
  cbn [map concat fst snd]. rewrite !app_length, IH. unfold stored_block. cbn [length app].
  rewrite !app_length. change (length (le16 (N.of_nat (length ch)))) with 2%nat.
  change (length (le16 (65535 - N.of_nat (length ch)))) with 2%nat. lia.
Qed.

Section Api.
Variable flags : N.
Variable zl : bool.
Hypothesis HZ : has flags F_ZLIB = zl.
Hypothesis HSB : has flags F_STOPBB = false.
Hypothesis HNW : has flags F_NONWRAP = true.
Variables (cmf flg A : N).
Hypothesis Hcmf : cmf < 256.
Hypothesis Hflg : flg < 256.
Hypothesis Hvalid : valid_header (Z.of_N cmf) (Z.of_N flg) = true.
Hypothesis HA : A < 2 ^ 32.
Variable B : list blk.
Hypothesis HB : shapeB B.
Variable extra : list N.

Notation input := (InflateStoredZ.hz zl cmf flg ++ InflateStoredZ.encT zl A extra B).
Notation PB := (InflateStoredChunks.P B).

(* one call with everything offered, no more input announced or needed, and a buffer with room *)
Lemma whole_stream_one_call o :
  N.of_nat (length PB) < alen o -> alen o <= USIZE_MAX -> N.of_nat (length input) < 2 ^ 57 ->
  exists res, decompress dec_default input o 0 USIZE_MAX flags = Ret res /\
    cr_status res = final_status flags zl A B /\
    cr_in res + N.of_nat (length extra) = N.of_nat (length input) /\
    cr_out res = N.of_nat (length PB) /\ aget_list (cr_buf res) 0 (N.of_nat (length PB)) = PB.
Proof.
  intros Hroom Hrep Hshort.
  pose proof (DI_init flags zl cmf flg A B extra o HB) as HD.
  rewrite <- (app_nil_r input) in HD.
  destruct (call_total flags zl HZ HSB HNW cmf flg A Hcmf Hflg Hvalid HA B HB extra 0 dec_default input [] o 0 USIZE_MAX
              (or_intror eq_refl) HD Hrep Hshort) as (res & Hd & HCP).
  exists res. split; [exact Hd|].
  destruct HCP as (Hal & Hle & [(Hs & HD' & Hnmi & Hhmo)|(Hs & Hin & Hp & Hout)]).
  - exfalso. destruct Hs as [Hs|Hs]; [exact (proj1 (Hnmi Hs) eq_refl)|].
    specialize (Hhmo Hs).
    destruct (DI_prefix flags zl cmf flg A Hcmf Hflg HA B extra 0 _ _ _ _ HD') as (_ & H2 & _).
    unfold USIZE_MAX in *. lia.
  - split; [exact Hs|]. cbn [length] in Hin. split; [lia|]. split; [lia|exact Hout].
Qed.

(* decompress_to_vec_inner: the first vector (twice the input length) always has room *)
Theorem to_vec_stored_stream flags0 :
  flags = N.lor flags0 F_NONWRAP ->
  final_status flags zl A B = Done ->
  N.of_nat (length input) < 2 ^ 57 ->
  decompress_to_vec_inner input flags0 USIZE_MAX = Ret (VOk PB).
Proof.
  intros Hfl Hfin Hshort. unfold decompress_to_vec_inner. rewrite <- Hfl.
  set (n := N.min (N.min (N.of_nat (length input) * 2) USIZE_MAX) USIZE_MAX).
  assert (Hn : n = N.of_nat (length input) * 2) by (unfold n, USIZE_MAX; change (2 ^ 57) with 144115188075855872 in Hshort; lia).
  assert (Hlen : N.of_nat (length PB) < N.of_nat (length input)).
  { unfold InflateStoredChunks.P, InflateStoredZ.encT. rewrite !app_length, length_enc.
    assert (length B <> 0)%nat by (destruct B; [inversion HB|cbn [length]; lia]). lia. }
  set (s0 := {| v_dec := dec_default; v_in := input; v_ret := amake n 0; v_pos := 0 |}).
  assert (Hturn : vec_turn flags USIZE_MAX s0 = inr (Ret (VOk PB))).
  { unfold vec_turn, s0. cbn [v_dec v_in v_ret v_pos].
    destruct (whole_stream_one_call (amake n 0)) as (res & Hd & Hs & Hin & Hout & Hbuf).
    - cbn [alen amake]. lia.
    - cbn [alen amake]. unfold USIZE_MAX. change (2 ^ 57) with 144115188075855872 in Hshort. lia.
    - exact Hshort.
    - rewrite Hd, Hs, Hfin. rewrite N.add_0_l, Hout. rewrite Hbuf. reflexivity. }
  rewrite (iter_pow_inr (vec_turn flags USIZE_MAX) 1 8 s0 _ ltac:(cbn [steps]; rewrite Hturn; reflexivity) ltac:(cbn; lia)).
  reflexivity.
Qed.

End Api.

(* ------------------------------------------------------------------ decompress_slice_iter_to_slice *)
Definition sflags (zlib ignore more : bool) : N :=
  F_NONWRAP + (if zlib then F_ZLIB else 0) + (if ignore then F_IGNORE else 0) + (if more then F_MORE else 0).

Lemma sflags_has zlib ignore more :
  has (sflags zlib ignore more) F_ZLIB = zlib /\ has (sflags zlib ignore more) F_STOPBB = false /\
  has (sflags zlib ignore more) F_NONWRAP = true /\ has (sflags zlib ignore more) F_MORE = more /\
  need_adler (sflags zlib ignore more) = (if ignore then false else zlib) /\
  has (sflags zlib ignore more) F_IGNORE = ignore.
Proof. destruct zlib, ignore, more; vm_compute; repeat split; reflexivity. Qed.

Section Slices.
Variables (zlib ignore : bool).
Variables (cmf flg A : N).
Hypothesis Hcmf : cmf < 256.
Hypothesis Hflg : flg < 256.
Hypothesis Hvalid : valid_header (Z.of_N cmf) (Z.of_N flg) = true.
Hypothesis HA : A < 2 ^ 32.
Variable B : list blk.
Hypothesis HB : shapeB B.
Variable extra : list N.
Notation PB := (InflateStoredChunks.P B).
Notation fl := (sflags zlib ignore).

Lemma DI_more m m' d rem o p :
  DI (fl m) zlib cmf flg A B extra 0 d rem o p -> DI (fl m') zlib cmf flg A B extra 0 d rem o p.
Proof.
  unfold DI, chk_of. destruct (sflags_has zlib ignore m) as (_ & _ & _ & _ & -> & _).
  destruct (sflags_has zlib ignore m') as (_ & _ & _ & _ & -> & _). exact (fun H => H).
Qed.

Lemma final_more m m' : final_status (fl m) zlib A B = final_status (fl m') zlib A B.
Proof.
  unfold final_status. destruct (sflags_has zlib ignore m) as (_ & _ & _ & _ & _ & ->).
  destruct (sflags_has zlib ignore m') as (_ & _ & _ & _ & _ & ->). reflexivity.
Qed.

Theorem slice_iter_stored : forall slices d o p,
  slices <> [] ->
  DI (fl true) zlib cmf flg A B extra 0 d (concat slices) o p ->
  N.of_nat (length PB) < alen o -> alen o <= USIZE_MAX -> N.of_nat (length (concat slices)) < 2 ^ 57 ->
  exists o', slice_iter d o p zlib ignore slices = Ret (final_status (fl false) zlib A B, N.of_nat (length PB), o') /\
             aget_list o' 0 (N.of_nat (length PB)) = PB.
Proof.
  induction slices as [|sl rest IH]; intros d o p Hne HD Hroom Hrep Hshort; [contradiction|].
  cbn [slice_iter]. cbn [concat] in HD, Hshort.
  set (more := match rest with [] => false | _ => true end).
  fold (sflags zlib ignore more).
  destruct (sflags_has zlib ignore more) as (HZ & HSB & HNW & HM & _ & _).
  assert (HMo : has (fl more) F_MORE = true \/ concat rest = []).
  { rewrite HM. unfold more. destruct rest; [right; reflexivity|left; reflexivity]. }
  assert (Hsh1 : N.of_nat (length sl) < 2 ^ 57) by (rewrite app_length in Hshort; lia).
  destruct (call_total (fl more) zlib HZ HSB HNW cmf flg A Hcmf Hflg Hvalid HA B HB extra 0 d sl (concat rest) o p USIZE_MAX
              HMo (DI_more true more _ _ _ _ HD) Hrep Hsh1) as (r & Ed & HCP).
  rewrite Ed. cbn [bind].
  destruct HCP as (Hal & Hle & [(Hs & HD' & Hnmi & Hhmo)|(Hs & Hin & Hp & Hout)]).
  - destruct (DI_prefix (fl more) zlib cmf flg A Hcmf Hflg HA B extra 0 _ _ _ _ HD') as (_ & H2 & _).
    destruct Hs as [Hs|Hs].
    + (* the slice is used up: on to the next one *)
      rewrite Hs. destruct (Hnmi Hs) as [Hfut Hin].
      assert (Hrest : rest <> []) by (intros X; subst rest; apply Hfut; reflexivity).
      rewrite Hin, Nat2N.id, skipn_all in HD'. cbn [app] in HD'.
      rewrite <- Hal in Hroom, Hrep.
      assert (Hsh2 : N.of_nat (length (concat rest)) < 2 ^ 57) by (rewrite app_length in Hshort; lia).
      exact (IH (cr_dec r) (cr_buf r) (p + cr_out r) Hrest (DI_more more true _ _ _ _ HD') Hroom Hrep Hsh2).
    + exfalso. specialize (Hhmo Hs). unfold USIZE_MAX in *. lia.
  - exists (cr_buf r). rewrite Hs.
    assert (Hnm : final_status (fl more) zlib A B <> NeedsMoreInput).
    { unfold final_status. destruct (has (fl more) F_IGNORE || negb zlib || (adler32 1 PB =? A)); discriminate. }
    split; [|exact Hout].
    rewrite (final_more more false) in *. rewrite Hp.
    destruct (final_status (fl false) zlib A B); try reflexivity. contradiction.
Qed.

End Slices.

(* ------------------------------------------------------------------ the statements *)
Lemma final_done_zlib flags chunks last :
  final_status flags true (adler32 1 (concat chunks ++ last)) (map (pair false) chunks ++ [(true, last)]) = Done.
Proof.
  unfold final_status, InflateStoredChunks.P. rewrite pay_of, N.eqb_refl, !orb_true_r. reflexivity.
Qed.

(* decompress_to_vec_zlib-style call: zlib framing with the right trailer *)
Theorem to_vec_zlib_stored_stream flags0 cmf flg chunks last extra :
  has (N.lor flags0 F_NONWRAP) F_ZLIB = true -> has (N.lor flags0 F_NONWRAP) F_STOPBB = false ->
  cmf < 256 -> flg < 256 -> valid_header (Z.of_N cmf) (Z.of_N flg) = true ->
  chunks_ok chunks -> bytes_ok last -> N.of_nat (length last) <= 65535 ->
  let data := concat chunks ++ last in
  let input := (cmf :: flg :: stored_stream chunks last ++ be32 (adler32 1 data)) ++ extra in
  N.of_nat (length input) < 2 ^ 57 ->
  decompress_to_vec_inner input flags0 USIZE_MAX = Ret (VOk data).
Proof.
  intros HZ HSB Hcmf Hflg Hvalid Hc Hl1 Hl2 data input Hshort.
  set (B := map (pair false) chunks ++ [(true, last)]).
  pose proof (shapeB_of chunks last Hc Hl1 Hl2) as HB. fold B in HB.
  assert (Hinput : input = InflateStoredZ.hz true cmf flg ++ InflateStoredZ.encT true (adler32 1 data) extra B).
  { unfold input, InflateStoredZ.hz, InflateStoredZ.encT, tail, tailz, B. rewrite enc_of. cbn [app]. rewrite <- !app_assoc. reflexivity. }
  assert (Hdata : data = InflateStoredChunks.P B) by (unfold data, InflateStoredChunks.P, B; rewrite pay_of; reflexivity).
  rewrite Hinput in *.
  assert (HA : adler32 1 data < 2 ^ 32) by apply (adler32_lt _ _ adler_valid_1).
  assert (Hfin : final_status (N.lor flags0 F_NONWRAP) true (adler32 1 data) B = Done) by apply final_done_zlib.
  set (A := adler32 1 data) in *. clearbody A. rewrite Hdata.
  exact (to_vec_stored_stream (N.lor flags0 F_NONWRAP) true HZ HSB (has_lor_nonwrap flags0) cmf flg A Hcmf Hflg Hvalid
           HA B HB extra flags0 eq_refl Hfin Hshort).
Qed.

(* decompress_to_vec-style call: raw format *)
Theorem to_vec_raw_stored_stream flags0 chunks last extra :
  has (N.lor flags0 F_NONWRAP) F_ZLIB = false -> has (N.lor flags0 F_NONWRAP) F_STOPBB = false ->
  chunks_ok chunks -> bytes_ok last -> N.of_nat (length last) <= 65535 ->
  let data := concat chunks ++ last in
  let input := stored_stream chunks last ++ extra in
  N.of_nat (length input) < 2 ^ 57 ->
  decompress_to_vec_inner input flags0 USIZE_MAX = Ret (VOk data).
Proof.
  intros HZ HSB Hc Hl1 Hl2 data input Hshort.
  set (B := map (pair false) chunks ++ [(true, last)]).
  pose proof (shapeB_of chunks last Hc Hl1 Hl2) as HB. fold B in HB.
  assert (Hinput : input = InflateStoredZ.hz false 120 1 ++ InflateStoredZ.encT false 0 extra B).
  { unfold input, InflateStoredZ.hz, InflateStoredZ.encT, tail, tailz, B. rewrite enc_of. reflexivity. }
  assert (Hdata : data = InflateStoredChunks.P B) by (unfold data, InflateStoredChunks.P, B; rewrite pay_of; reflexivity).
  rewrite Hinput in *. rewrite Hdata.
  apply (to_vec_stored_stream (N.lor flags0 F_NONWRAP) false HZ HSB (has_lor_nonwrap flags0) 120 1 0 ltac:(lia) ltac:(lia) ltac:(reflexivity)
           ltac:(cbn; lia) B HB extra flags0 eq_refl).
  - unfold final_status. cbn [negb orb]. rewrite orb_true_r. reflexivity.
  - exact Hshort.
Qed.

(* decompress_slice_iter_to_slice: the stream (and anything after it) given as ANY non-empty list of slices,
   destination with one spare byte *)
Theorem slice_iter_stored_stream (zlib ignore : bool) cmf flg chunks last extra slices out_len :
  cmf < 256 -> flg < 256 -> valid_header (Z.of_N cmf) (Z.of_N flg) = true ->
  chunks_ok chunks -> bytes_ok last -> N.of_nat (length last) <= 65535 ->
  let data := concat chunks ++ last in
  let stream := (if zlib then [cmf; flg] else []) ++ stored_stream chunks last ++ (if zlib then be32 (adler32 1 data) else []) in
  slices <> [] -> concat slices = stream ++ extra ->
  N.of_nat (length data) < out_len -> out_len <= USIZE_MAX -> N.of_nat (length (concat slices)) < 2 ^ 57 ->
  exists o', decompress_slice_iter_to_slice out_len slices zlib ignore = Ret (Done, N.of_nat (length data), o') /\
             aget_list o' 0 (N.of_nat (length data)) = data.
Proof.
  intros Hcmf Hflg Hvalid Hc Hl1 Hl2 data stream Hne Hcat Hroom Hrep Hshort.
  set (B := map (pair false) chunks ++ [(true, last)]).
  pose proof (shapeB_of chunks last Hc Hl1 Hl2) as HB. fold B in HB.
  set (A := adler32 1 data).
  assert (Hinput : stream ++ extra = InflateStoredZ.hz zlib cmf flg ++ InflateStoredZ.encT zlib A extra B).
  { unfold stream, InflateStoredZ.hz, InflateStoredZ.encT, tail, tailz, B. rewrite enc_of. fold A.
    destruct zlib; cbn [app]; rewrite <- ?app_assoc; reflexivity. }
  assert (Hdata : data = InflateStoredChunks.P B) by (unfold data, InflateStoredChunks.P, B; rewrite pay_of; reflexivity).
  unfold decompress_slice_iter_to_slice.
  pose proof (DI_init (sflags zlib ignore true) zlib cmf flg A B extra (amake out_len 0) HB) as HD.
  rewrite <- Hinput, <- Hcat in HD.
  destruct (slice_iter_stored zlib ignore cmf flg A Hcmf Hflg Hvalid (adler32_lt _ _ adler_valid_1) B HB extra slices dec_default
              (amake out_len 0) 0 Hne HD ltac:(rewrite <- Hdata; exact Hroom) Hrep Hshort) as (o' & Hs & Ho).
  exists o'. rewrite <- Hdata in Hs, Ho. split; [|exact Ho].
  rewrite Hs. f_equal. f_equal. f_equal.
  unfold final_status. rewrite <- Hdata. unfold A. rewrite N.eqb_refl, !orb_true_r. reflexivity.
Qed.
