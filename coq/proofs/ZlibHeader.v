(* Theorems about the zlib header functions, stated over the definitions that
   translator/rs2v.py regenerates from deflate/zlib.rs, deflate/core.rs and
   inflate/core.rs on every run. *)
From Coq Require Import ZArith List Bool Lia.
From MZ.gen Require Import GenZlib.
From MZ.spec Require Import Zlib.
Import ListNotations.
Local Open Scope Z_scope.
Ltac Zify.zify_post_hook ::= Z.div_mod_to_equations.

(* ---------- finite-range helper *)
Fixpoint zrange (lo : Z) (n : nat) : list Z :=
  match n with O => [] | S n' => lo :: zrange (lo + 1) n' end.

Lemma zrange_in n : forall lo x, lo <= x < lo + Z.of_nat n -> In x (zrange lo n).
Proof.
  induction n as [|n IH]; intros lo x H; [lia|].
  cbn [zrange]. destruct (Z.eq_dec lo x) as [->|Hne]; [now left|right].
  apply IH. lia.
Qed.

Lemma forall_range (P : Z -> bool) lo n :
  forallb P (zrange lo n) = true -> forall x, lo <= x < lo + Z.of_nat n -> P x = true.
Proof. intros H x Hx. rewrite forallb_forall in H. apply H, zrange_in, Hx. Qed.

(* ---------- zlib_level_from_flags only produces 0..3 and never panics *)
Lemma level_from_flags_range flags :
  let '(lvl, ok) := zlib_level_from_flags flags in
  ok = true /\ 0 <= lvl <= 3.
Proof.
  unfold zlib_level_from_flags.
  repeat match goal with |- context [if ?c then _ else _] => destruct c end;
    cbn; split; try reflexivity; lia.
Qed.

(* ---------- header_from_level on its whole (finite) domain *)
Definition header_ok (lvl wb : Z) : bool :=
  let '((cmf, flg), ok) := header_from_level lvl wb in
  ok && ((cmf * 256 + flg) mod 31 =? 0) && (cmf mod 16 =? 8)
     && (cmf / 16 =? Z.max 0 (wb - 8)) && (cmf / 16 <=? 7)
     && (Z.land flg 32 =? 0) && (flg / 64 =? lvl)
     && (0 <=? cmf) && (cmf <? 256) && (0 <=? flg) && (flg <? 256)
     && valid_header cmf flg.

Lemma header_from_level_all :
  forallb (fun lvl => forallb (fun wb => header_ok lvl wb) (zrange 0 16)) (zrange 0 4) = true.
Proof. vm_compute. reflexivity. Qed.

Lemma header_from_level_ok lvl wb :
  0 <= lvl <= 3 -> 0 <= wb <= 15 -> header_ok lvl wb = true.
Proof.
  intros Hl Hw.
  pose proof (forall_range _ _ _ header_from_level_all lvl ltac:(cbn; lia)) as H1.
  cbn beta in H1. exact (forall_range _ _ _ H1 wb ltac:(cbn; lia)).
Qed.

(* The header the compressor writes, for every flag word and every window_bits the
   constructors can store (they clamp to <= 15). *)
Theorem header_from_flags_valid flags wb :
  0 <= wb <= 15 ->
  let '((cmf, flg), ok) := header_from_flags flags wb in
  ok = true /\
  (cmf * 256 + flg) mod 31 = 0 /\ cmf mod 16 = 8 /\
  cmf / 16 = Z.max 0 (wb - 8) /\ cmf / 16 <= 7 /\ Z.land flg 32 = 0 /\
  0 <= cmf < 256 /\ 0 <= flg < 256 /\ valid_header cmf flg = true.
Proof.
  intros Hw. unfold header_from_flags.
  pose proof (level_from_flags_range flags) as Hl.
  destruct (zlib_level_from_flags flags) as [lvl k]. destruct Hl as [-> Hl].
  pose proof (header_from_level_ok lvl wb Hl Hw) as H. unfold header_ok in H.
  destruct (header_from_level lvl wb) as [[cmf flg] ok].
  repeat (apply andb_prop in H; destruct H as [H ?]).
  repeat match goal with
         | H : (_ =? _) = true |- _ => apply Z.eqb_eq in H
         | H : (_ <=? _) = true |- _ => apply Z.leb_le in H
         | H : (_ <? _) = true |- _ => apply Z.ltb_lt in H
         end.
  subst ok. cbn [andb]. repeat split; try assumption; lia.
Qed.

(* ---------- limit_level_by_window_bits / create_comp_flags: what reaches the header *)

(* ---------- validate_zlib_header: accepts exactly the RFC-valid headers whose
   declared window fits the ring buffer (when the buffer is a ring). *)
Lemma uwrap_small w x : 0 <= x < 2 ^ w -> uwrap w x = x.
Proof. intros H. unfold uwrap. apply Z.mod_small. exact H. Qed.

Definition window_term (cmf : Z) : Z :=
  uwrap 64 (Z.shiftl 1 (uwrap 32 (Z.shiftr cmf 4 + 8))).

Lemma window_term_all :
  forallb (fun cmf => window_term cmf =? header_window cmf) (zrange 0 256) = true.
Proof. vm_compute. reflexivity. Qed.

Lemma window_term_eq cmf : 0 <= cmf < 256 -> window_term cmf = header_window cmf.
Proof.
  intros H. apply Z.eqb_eq.
  exact (forall_range _ _ _ window_term_all cmf ltac:(cbn; lia)).
Qed.

(* the decision as a function of the two facts about the caller's buffer *)
Definition validate_abs (cmf flg : Z) (wrapping too_small : bool) : Z :=
  if (negb (valid_header cmf flg)) || (wrapping && too_small) then 29 else 3.

Definition validate_core (cmf flg : Z) (wrapping too_small : bool) : Z * bool :=
  let t_1 := cmf * 256 in
  let t_2 := uwrap 32 t_1 + flg in
  let failed_3 := (negb (Z.rem (uwrap 32 t_2) 31 =? 0) || negb (Z.land flg 32 =? 0))
                  || negb (Z.land cmf 15 =? 8) in
  let failed_8 := orb failed_3 too_small in
  let failed_9 := orb (if wrapping then failed_8 else failed_3) (header_window cmf >? 32768) in
  ((if failed_9 then 29 else 3),
   (inrange 0 4294967295 t_1 && inrange 0 4294967295 t_2)).

Definition core_ok (cmf flg : Z) : bool :=
  forallb (fun w => forallb (fun s =>
     let '(r, ok) := validate_core cmf flg w s in
     ok && (r =? validate_abs cmf flg w s)) [true; false]) [true; false].

Lemma validate_core_all :
  forallb (fun cmf => forallb (fun flg => core_ok cmf flg) (zrange 0 256)) (zrange 0 256) = true.
Proof. vm_compute. reflexivity. Qed.

Theorem validate_zlib_header_spec cmf flg flags mask :
  0 <= cmf < 256 -> 0 <= flg < 256 -> 0 <= mask < 2 ^ 64 - 1 ->
  let wrapping := Z.land flags 4 =? 0 in
  let too_small := mask + 1 <? header_window cmf in
  validate_zlib_header cmf flg flags mask
  = ((tag_Action_Jump, validate_abs cmf flg wrapping too_small), true).
Proof.
  intros Hc Hf Hm wrapping too_small.
  pose proof (forall_range _ _ _ validate_core_all cmf ltac:(cbn; lia)) as H1.
  cbn beta in H1.
  pose proof (forall_range _ _ _ H1 flg ltac:(cbn; lia)) as H2. clear H1.
  unfold core_ok in H2. rewrite !forallb_forall in H2.
  specialize (H2 wrapping ltac:(destruct wrapping; cbn; tauto)).
  rewrite forallb_forall in H2.
  specialize (H2 too_small ltac:(destruct too_small; cbn; tauto)).
  unfold validate_zlib_header.
  fold (window_term cmf). rewrite (window_term_eq cmf Hc).
  rewrite (uwrap_small 64 (mask + 1)) by lia.
  fold wrapping. fold too_small.
  unfold validate_core in H2.
  cbv zeta in *.
  destruct (inrange 0 4294967295 (cmf * 256)) eqn:E1; [|discriminate H2].
  destruct (inrange 0 4294967295 (uwrap 32 (cmf * 256) + flg)) eqn:E2; [|discriminate H2].
  cbn [andb] in H2. apply Z.eqb_eq in H2. rewrite H2.
  f_equal.
  assert (E3 : inrange 0 4294967295 (Z.shiftr cmf 4 + 8) = true).
  { unfold inrange. rewrite Z.shiftr_div_pow2 by lia. change (2 ^ 4) with 16.
    apply andb_true_intro; split; [apply Z.leb_le|apply Z.leb_le]; lia. }
  assert (E4 : inrange 0 63 (uwrap 32 (Z.shiftr cmf 4 + 8)) = true).
  { rewrite uwrap_small.
    - unfold inrange. rewrite Z.shiftr_div_pow2 by lia. change (2 ^ 4) with 16.
      apply andb_true_intro; split; [apply Z.leb_le|apply Z.leb_le]; lia.
    - rewrite Z.shiftr_div_pow2 by lia. change (2 ^ 4) with 16. change (2 ^ 32) with 4294967296. lia. }
  assert (E5 : inrange 0 18446744073709551615 (mask + 1) = true).
  { unfold inrange. change (2 ^ 64) with 18446744073709551616 in Hm.
    apply andb_true_intro; split; apply Z.leb_le; lia. }
  rewrite E3, E4, E5. cbn. destruct wrapping; reflexivity.
Qed.
