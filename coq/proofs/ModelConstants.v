(* The constants the hand-written models use are the constants of the source: every flag value, flush value, status /
   error code, state number and buffer size that model/*.v spells out is equal to the constant REGENERATED from
   /repo on this run (coq/gen/GenZlib.v, GenTables.v by translator/rs2v.py).  A change of one of them in the source
   breaks this file instead of leaving the models quietly out of date. *)
From Coq Require Import NArith ZArith List.
Import ListNotations.
From MZ.gen Require GenTables GenZlib.
From MZ.model Require InflateCore InflateStream DeflateCore.
Local Open Scope Z_scope.

Definition inflate_constants_are_source_constants_statement : Prop :=
  Z.of_N InflateCore.F_ZLIB = GenZlib.c_TINFL_FLAG_PARSE_ZLIB_HEADER /\
  Z.of_N InflateCore.F_MORE = GenZlib.c_TINFL_FLAG_HAS_MORE_INPUT /\
  Z.of_N InflateCore.F_NONWRAP = GenZlib.c_TINFL_FLAG_USING_NON_WRAPPING_OUTPUT_BUF /\
  Z.of_N InflateCore.F_COMPUTE = GenZlib.c_TINFL_FLAG_COMPUTE_ADLER32 /\
  Z.of_N InflateCore.F_IGNORE = GenZlib.c_TINFL_FLAG_IGNORE_ADLER32 /\
  Z.of_N InflateCore.F_STOPBB = GenZlib.c_TINFL_FLAG_STOP_ON_BLOCK_BOUNDARY /\
  Z.of_N InflateStream.DICT = GenTables.c_TINFL_LZ_DICT_SIZE /\
  Z.of_N InflateStream.FL_NONE = GenTables.e_MZFlush_None /\
  Z.of_N InflateStream.FL_FULL = GenTables.e_MZFlush_Full /\
  Z.of_N InflateStream.FL_FINISH = GenTables.e_MZFlush_Finish /\
  InflateStream.MZ_OK = GenTables.e_MZStatus_Ok /\
  InflateStream.MZ_STREAM_END = GenTables.e_MZStatus_StreamEnd /\
  InflateStream.MZ_ERR_STREAM = GenTables.e_MZError_Stream /\
  InflateStream.MZ_ERR_DATA = GenTables.e_MZError_Data /\
  InflateStream.MZ_ERR_BUF = GenTables.e_MZError_Buf /\
  map (fun s => Z.of_N (InflateCore.state_id s))
      [InflateCore.Start; InflateCore.ReadZlibCmf; InflateCore.ReadZlibFlg; InflateCore.ReadBlockHeader;
       InflateCore.BlockTypeNoCompression; InflateCore.RawHeader; InflateCore.RawMemcpy1; InflateCore.RawMemcpy2;
       InflateCore.ReadTableSizes; InflateCore.ReadHufflenTableCodeSize; InflateCore.ReadLitlenDistTablesCodeSize;
       InflateCore.ReadExtraBitsCodeSize; InflateCore.DecodeLitlen; InflateCore.WriteSymbol;
       InflateCore.ReadExtraBitsLitlen; InflateCore.DecodeDistance; InflateCore.ReadExtraBitsDistance;
       InflateCore.RawReadFirstByte; InflateCore.RawStoreFirstByte; InflateCore.WriteLenBytesToEnd;
       InflateCore.BlockDone; InflateCore.HuffDecodeOuterLoop1; InflateCore.HuffDecodeOuterLoop2;
       InflateCore.ReadAdler32; InflateCore.DoneForever; InflateCore.BlockTypeUnexpected; InflateCore.BadCodeSizeSum;
       InflateCore.BadDistOrLiteralTableLength; InflateCore.BadTotalSymbols; InflateCore.BadZlibHeader;
       InflateCore.DistanceOutOfBounds; InflateCore.BadRawLength; InflateCore.BadCodeSizeDistPrevLookup;
       InflateCore.InvalidLitlen; InflateCore.InvalidDist]
  = [GenZlib.e_State_Start; GenZlib.e_State_ReadZlibCmf; GenZlib.e_State_ReadZlibFlg; GenZlib.e_State_ReadBlockHeader;
     GenZlib.e_State_BlockTypeNoCompression; GenZlib.e_State_RawHeader; GenZlib.e_State_RawMemcpy1; GenZlib.e_State_RawMemcpy2;
     GenZlib.e_State_ReadTableSizes; GenZlib.e_State_ReadHufflenTableCodeSize; GenZlib.e_State_ReadLitlenDistTablesCodeSize;
     GenZlib.e_State_ReadExtraBitsCodeSize; GenZlib.e_State_DecodeLitlen; GenZlib.e_State_WriteSymbol;
     GenZlib.e_State_ReadExtraBitsLitlen; GenZlib.e_State_DecodeDistance; GenZlib.e_State_ReadExtraBitsDistance;
     GenZlib.e_State_RawReadFirstByte; GenZlib.e_State_RawStoreFirstByte; GenZlib.e_State_WriteLenBytesToEnd;
     GenZlib.e_State_BlockDone; GenZlib.e_State_HuffDecodeOuterLoop1; GenZlib.e_State_HuffDecodeOuterLoop2;
     GenZlib.e_State_ReadAdler32; GenZlib.e_State_DoneForever; GenZlib.e_State_BlockTypeUnexpected; GenZlib.e_State_BadCodeSizeSum;
     GenZlib.e_State_BadDistOrLiteralTableLength; GenZlib.e_State_BadTotalSymbols; GenZlib.e_State_BadZlibHeader;
     GenZlib.e_State_DistanceOutOfBounds; GenZlib.e_State_BadRawLength; GenZlib.e_State_BadCodeSizeDistPrevLookup;
     GenZlib.e_State_InvalidLitlen; GenZlib.e_State_InvalidDist].

Theorem inflate_constants_are_source_constants : inflate_constants_are_source_constants_statement.
Proof. unfold inflate_constants_are_source_constants_statement. repeat split; reflexivity. Qed.

Definition deflate_constants_are_source_constants_statement : Prop :=
  Z.of_N DeflateCore.FLAG_ZLIB = GenZlib.c_TDEFL_WRITE_ZLIB_HEADER /\
  Z.of_N DeflateCore.FLAG_ADLER = GenZlib.c_TDEFL_COMPUTE_ADLER32 /\
  Z.of_N DeflateCore.FLAG_RAW = GenZlib.c_TDEFL_FORCE_ALL_RAW_BLOCKS /\
  Z.of_N DeflateCore.TF_NONE = GenTables.e_TDEFLFlush_None /\
  Z.of_N DeflateCore.TF_PARTIAL = GenTables.e_TDEFLFlush_Partial /\
  Z.of_N DeflateCore.TF_SYNC = GenTables.e_TDEFLFlush_Sync /\
  Z.of_N DeflateCore.TF_FULL = GenTables.e_TDEFLFlush_Full /\
  Z.of_N DeflateCore.TF_FINISH = GenTables.e_TDEFLFlush_Finish /\
  Z.of_N DeflateCore.TF_PARTIAL_OPT = GenTables.e_TDEFLFlush_PartialOpt /\
  Z.of_N DeflateCore.TF_SYNC_OPT = GenTables.e_TDEFLFlush_SyncOpt /\
  Z.of_N DeflateCore.TF_NOSYNC = GenTables.e_TDEFLFlush_NoSync /\
  Z.of_N DeflateCore.C_DICT_SIZE = GenTables.c_LZ_DICT_SIZE /\
  Z.of_N DeflateCore.DMASK = GenTables.c_LZ_DICT_SIZE_MASK /\
  Z.of_N DeflateCore.C_MAX_MATCH = GenTables.c_MAX_MATCH_LEN /\
  Z.of_N DeflateCore.OUT_CAP = GenTables.c_OUT_BUF_SIZE - 16 /\
  DeflateCore.D_MZ_OK = GenTables.e_MZStatus_Ok /\
  DeflateCore.D_MZ_STREAM_END = GenTables.e_MZStatus_StreamEnd /\
  DeflateCore.D_MZ_ERR_STREAM = GenTables.e_MZError_Stream /\
  DeflateCore.D_MZ_ERR_BUF = GenTables.e_MZError_Buf /\
  DeflateCore.D_MZ_ERR_PARAM = GenTables.e_MZError_Param.

Theorem deflate_constants_are_source_constants : deflate_constants_are_source_constants_statement.
Proof. unfold deflate_constants_are_source_constants_statement. repeat split; reflexivity. Qed.
