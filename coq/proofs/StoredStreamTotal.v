(* Level 0 under every schedule never panics: the streaming compressor model compress(), driven by any
   sequence of calls (any input chunks, any output buffer lengths, flush None / Sync / Full / Finish),
   never yields a Panic value and never leaves the modelled fragment.  Companion of StoredTotal.v (one-shot)
   for the call-sequence invariant of StoredStream.v. *)
From Coq Require Import NArith ZArith List Bool Lia Arith.
From MZ.lib Require Import Arr Bits Mach.
From MZ.spec Require Import Adler DeflateSpec.
From MZ.gen Require GenZlib.
From MZ.model Require Import DeflateCore.
From MZ.proofs Require Import IterPow StoredSpec DeflateCounts StoredModel StoredStream StoredSchedules StoredTotal.
From MZ.proofs Require ZlibHeader.
Import ListNotations.
Local Open Scope N_scope.
Arguments N.add : simpl never.
Arguments N.sub : simpl never.
Arguments N.mul : simpl never.
Arguments N.min : simpl never.
Arguments N.ltb : simpl never.
Arguments N.leb : simpl never.
Arguments N.eqb : simpl never.

Lemma sync_marker_eq o :
  aligned o -> ob_n o + 4 < OUT_CAP ->
  (oa <- put_bits o 0 3 ;; ob <- ob_pad_to_bytes oa ;; oc <- put_bits ob 0 16 ;; put_bits oc 65535 16)
  = Ret (push o sync_marker).
Proof.
  destruct o as [r n bb bi]. unfold aligned. cbn [ob_bb ob_bits ob_n]. intros [-> ->] Hn.
  rewrite put_from_aligned by (change (2 ^ 3) with 8; lia).
  rewrite ofb_done by (cbn [ob_bits]; lia). cbn [bind].
  unfold ob_pad_to_bytes, csub, put_bits at 1, put_bits_no_flush, guard. cbn [ob_rev ob_n ob_bb ob_bits bind].
  change (negb (3 =? 0)) with true. cbv iota. change (3 <=? 8) with true. cbn [bind]. change (8 - 3) with 5.
  change (5 <? 32) with true. cbn [bind]. change (0 <=? N.ones 5) with true. cbn [bind].
  rewrite N.shiftl_0_l, N.lor_0_r. change (0 mod U32) with 0. change (3 + 5) with 8.
  rewrite ofb_step. cbn [ob_rev ob_n ob_bb ob_bits]. change (8 <=? 8) with true. cbv iota.
  unfold guard. replace (n <? OUT_CAP) with true by (symmetry; apply N.ltb_lt; lia). cbn [bind].
  rewrite ofb_done by (cbn [ob_bits]; lia). cbn [bind].
  change (0 mod 256) with 0. change (N.shiftr 0 8) with 0. change (8 - 8) with 0.
  rewrite (put16_eq {| ob_rev := 0 :: r; ob_n := n + 1; ob_bb := 0; ob_bits := 0 |} 0)
    by (try (split; reflexivity); try lia; cbn [ob_n]; lia).
  cbn [bind].
  rewrite put16_eq by (try apply aligned_push; try lia; rewrite ob_n_push; cbn [ob_n length le16]; lia).
  rewrite push_push. unfold push. cbn [ob_rev ob_n rev app length].
  unfold sync_marker, stored_block, le16. cbn [length app rev N.of_nat b2n].
  change (0 mod 256) with 0. change (0 / 256 mod 256) with 0.
  change ((65535 - 0) mod 256) with 255. change ((65535 - 0) / 256 mod 256) with 255.
  change (65535 mod 256) with 255. change (65535 / 256 mod 256) with 255.
  f_equal. f_equal. lia.
Qed.

Lemma fb_tail_eq c flush o2 :
  aligned o2 -> legal_flush flush -> ob_n o2 + 4 < OUT_CAP ->
  fb_tail c flush o2 = Ret (push o2 (trailer_bytes c flush)).
Proof.
  intros A2 Hfl Hn. unfold fb_tail, trailer_bytes.
  destruct Hfl as [-> | [-> | [-> | ->]]].
  - change (TF_NONE =? TF_FINISH) with false. change (TF_NONE =? TF_PARTIAL) with false.
    change (TF_NONE =? TF_PARTIAL_OPT) with false. change ((TF_NONE =? TF_SYNC) || (TF_NONE =? TF_FULL)) with false.
    change (TF_NONE =? TF_SYNC_OPT) with false. cbv iota. rewrite push_nil by exact A2. reflexivity.
  - change (TF_SYNC =? TF_FINISH) with false. change (TF_SYNC =? TF_PARTIAL) with false.
    change (TF_SYNC =? TF_PARTIAL_OPT) with false. change ((TF_SYNC =? TF_SYNC) || (TF_SYNC =? TF_FULL)) with true.
    cbv iota. apply sync_marker_eq; assumption.
  - change (TF_FULL =? TF_FINISH) with false. change (TF_FULL =? TF_PARTIAL) with false.
    change (TF_FULL =? TF_PARTIAL_OPT) with false. change ((TF_FULL =? TF_SYNC) || (TF_FULL =? TF_FULL)) with true.
    cbv iota. apply sync_marker_eq; assumption.
  - change (TF_FINISH =? TF_FINISH) with true. cbv iota.
    rewrite (pad_eq o2) by exact A2. cbn [bind].
    destruct (hasf (c_flags c) FLAG_ZLIB).
    + cbv zeta.
      rewrite (put8_eq o2) by (try exact A2; try (apply N.mod_lt; lia); lia). cbn [bind].
      rewrite (put8_eq (push o2 _)) by (try apply aligned_push; try (apply N.mod_lt; lia); rewrite ob_n_push; cbn [length]; lia). cbn [bind].
      rewrite (put8_eq (push (push o2 _) _)) by (try apply aligned_push; try (apply N.mod_lt; lia); rewrite !ob_n_push; cbn [length]; lia). cbn [bind].
      rewrite (put8_eq (push (push (push o2 _) _) _)) by (try apply aligned_push; try (apply N.mod_lt; lia); rewrite !ob_n_push; cbn [length]; lia).
      rewrite !push_push. reflexivity.
    + rewrite push_nil by exact A2. reflexivity.
Qed.

(* flush_block for any legal flush, as an equation *)
Lemma flush_block_gen_eq c cb flush :
  hasf (c_flags c) FLAG_RAW = true -> c_sbuf c = 0 -> c_sbits c = 0 -> c_wbits c <= 15 ->
  legal_flush flush -> c_pending c = [] -> c_total_bytes c < 32768 ->
  c_la_pos c = c_cbdp c + c_total_bytes c -> c_total_bytes c <= c_dsize c ->
  flush_block c cb flush
  = Ret (let '(n, c2, cb2) := flush_output (after_block c) cb (gblock_bytes c flush) in FbOk n c2 cb2).
Proof.
  intros Hraw Hsb Hsn Hwb Hfl Hpe Htb Hlp Hdz.
  unfold flush_block. rewrite Hsb, Hsn, Hraw.
  set (o0 := {| ob_rev := []; ob_n := 0; ob_bb := 0; ob_bits := 0 |}).
  assert (A0 : aligned o0) by (split; reflexivity).
  set (hb := if hasf (c_flags c) FLAG_ZLIB && (c_block_index c =? 0) then hdr (c_flags c) (c_wbits c) else []).
  assert (Hhl : N.of_nat (length hb) <= 2).
  { unfold hb, hdr. destruct (hasf (c_flags c) FLAG_ZLIB); cbn [andb]; [|cbn; lia].
    destruct (c_block_index c =? 0); [|cbn; lia].
    destruct (GenZlib.header_from_flags (Z.of_N (c_flags c)) (Z.of_N (c_wbits c))) as [[h0 h1] okf]. cbn. lia. }
  assert (Hh : (if hasf (c_flags c) FLAG_ZLIB && (c_block_index c =? 0)
     then let '(h0, h1, _) := GenZlib.header_from_flags (Z.of_N (c_flags c)) (Z.of_N (c_wbits c)) in
          put_bits (put_bits_no_flush o0 (Z.to_N h0) 8) (Z.to_N h1) 8
     else Ret o0) = Ret (push o0 hb)).
  { unfold hb, hdr. destruct (hasf (c_flags c) FLAG_ZLIB); cbn [andb].
    - destruct (c_block_index c =? 0).
      + pose proof (ZlibHeader.header_from_flags_valid (Z.of_N (c_flags c)) (Z.of_N (c_wbits c)) ltac:(lia)) as Hv.
        destruct (GenZlib.header_from_flags (Z.of_N (c_flags c)) (Z.of_N (c_wbits c))) as [[h0 h1] okf].
        destruct Hv as (_ & _ & _ & _ & _ & _ & Hc & Hf & _).
        apply put_hdr_eq; [exact A0|lia|lia|cbn [ob_n o0]; unfold OUT_CAP; lia].
      + rewrite push_nil by exact A0. reflexivity.
    - rewrite push_nil by exact A0. reflexivity. }
  rewrite Hh. cbn [bind]. clear Hh.
  set (o1 := push o0 hb).
  assert (A1 : aligned o1) by apply aligned_push.
  assert (N1 : ob_n o1 <= 2) by (unfold o1; rewrite ob_n_push; cbn [ob_n o0]; lia).
  set (chunk := dict_range (c_dict c) (N.land (c_cbdp c) DMASK) (c_total_bytes c)).
  assert (Hlen : N.of_nat (length chunk) = c_total_bytes c).
  { unfold chunk. rewrite length_dict_range; [lia| |exact Htb]. rewrite land_dmask. apply N.mod_lt. lia. }
  set (blk := if (0 <? c_total_bytes c) || (flush =? TF_FINISH) then stored_block (flush =? TF_FINISH) chunk else []).
  assert (Hblk : N.of_nat (length blk) <= 5 + 32768).
  { unfold blk. destruct ((0 <? c_total_bytes c) || (flush =? TF_FINISH)); [|cbn; lia].
    unfold stored_block. cbn [length]. rewrite !app_length.
    change (length (le16 (N.of_nat (length chunk)))) with 2%nat.
    change (length (le16 (65535 - N.of_nat (length chunk)))) with 2%nat. lia. }
  (* the data block, if any *)
  match goal with |- bind ?X _ = _ => assert (Hdata : X = Ret (Some (push o0 (hb ++ blk)))) end.
  { unfold blk. destruct ((0 <? c_total_bytes c) || (flush =? TF_FINISH)) eqn:Eb.
    - unfold csub. replace (c_cbdp c <=? c_la_pos c) with true by (symmetry; apply N.leb_le; lia). cbn [bind].
      cbv zeta.
      replace (c_la_pos c - c_cbdp c <=? c_dsize c) with true by (symmetry; apply N.leb_le; lia).
      unfold guard. cbn [andb Bool.eqb bind]. rewrite Hpe. cbn [bind negb].
      rewrite (put_block_header_eq o1 (if flush =? TF_FINISH then 1 else 0))
        by (try exact A1; try (destruct (flush =? TF_FINISH); lia); unfold OUT_CAP; lia).
      assert (Htb16 : c_total_bytes c < 65536) by lia.
      change 65535 with (N.ones 16) at 1. rewrite N.land_ones, N.mod_small by (change (2 ^ 16) with 65536; lia).
      rewrite lnot16 by exact Htb16.
      rewrite (put16_eq (push o1 _)) by (try apply aligned_push; try lia; rewrite ob_n_push; cbn [length]; unfold OUT_CAP; lia). cbn [bind].
      rewrite (put16_eq (push (push o1 _) _)) by (try apply aligned_push; try lia; rewrite !ob_n_push; cbn [length le16]; unfold OUT_CAP; lia). cbn [bind].
      fold chunk.
      rewrite (write_bytes_eq (push (push (push o1 _) _) _)) by (try apply aligned_push; rewrite !ob_n_push, Hlen; cbn [length le16]; unfold OUT_CAP; lia).
      f_equal. f_equal. unfold o1. rewrite !push_push. f_equal. f_equal. unfold stored_block. rewrite Hlen.
      cbn [app]. destruct (flush =? TF_FINISH); reflexivity.
    - rewrite app_nil_r. reflexivity. }
  rewrite Hdata. cbn [bind]. clear Hdata.
  set (o2 := push o0 (hb ++ blk)).
  assert (A2 : aligned o2) by apply aligned_push.
  assert (N2 : ob_n o2 + 4 < OUT_CAP) by (unfold o2; rewrite ob_n_push, app_length; cbn [ob_n o0]; unfold OUT_CAP; lia).
  fold (fb_tail c flush o2). rewrite (fb_tail_eq c flush o2 A2 Hfl N2). cbn [bind].
  unfold o2. rewrite push_push. cbn [push ob_bb ob_bits ob_rev o0].
  rewrite app_nil_r, rev_append_rev, app_nil_r, rev_involutive.
  unfold after_block.
  replace (gblock_bytes c flush) with ((hb ++ blk) ++ trailer_bytes c flush)
    by (unfold gblock_bytes, trailer_bytes, blk; fold hb; fold chunk; rewrite <- app_assoc; reflexivity).
  destruct (flush_output _ cb _) as [[n c2] cb2]. reflexivity.
Qed.

Lemma steps_measure' {S R : Type} (f : S -> S + R) (I : S -> Prop) (m : S -> nat) :
  (forall s s', I s -> f s = inl s' -> I s' /\ (m s' < m s)%nat) ->
  forall n s, I s -> (m s < n)%nat -> exists r, steps f n s = inr r.
Proof.
  intros H. induction n as [|n IH]; intros s HI Hlt; [lia|]. cbn [steps].
  destruct (f s) as [s'|r] eqn:E; [|eauto].
  destruct (H s s' HI E) as [HI' Hd]. apply IH; [exact HI'|lia].
Qed.

Section Sched.
Variables (data : list N) (flags wb : N).
Hypothesis Hraw : hasf flags FLAG_RAW = true.
Hypothesis Hwb : wb <= 15.

Notation SI2' := (SI2 data flags wb).
Notation BI2' := (BI2 data flags wb).
Notation SQ2' := (SQ2 data flags wb).
Notation GI2' := (GI2 data flags wb).

Definition SQret (r : res stres) : Prop :=
  match r with Ret (SRet ok c cb src) => Dz c | _ => False end.

Lemma stored_turn_ret2 R A C0 E f s :
  A < 2 ^ 32 -> legal_flush f -> SI2' R A C0 E f s -> Dzs s ->
  match stored_turn s with
  | inl s' => Dzs s'
  | inr r => SQret r
  end.
Proof.
  intros HA Hlf HSI HDz.
  destruct HSI as (Hfix & Hfl & Hpe & Hin & Hil & HleE & HEt & Hsrc & Hlp & Hbw & Hls & Hd & Hcbuf & Hem).
  destruct Hfix as (F1 & F2 & F3 & F4 & F5 & F6).
  unfold Dzs in HDz.
  unfold stored_turn. cbv zeta. rewrite Hfl.
  destruct ((0 <? s_inleft s) || negb (f =? TF_NONE) && negb (s_ls s =? 0)) eqn:Econd.
  2:{ unfold SQret, Dz. cbn [set_la mkc c_total_bytes c_dsize]. exact HDz. }
  unfold csub, C_MAX_MATCH. replace (s_ls s <=? 258) with true by (symmetry; apply N.leb_le; lia).
  set (n := N.min (s_inleft s) (258 - s_ls s)).
  assert (Hn2 : s_ls s + n <= 258) by (unfold n; lia).
  assert (Hpos : 1 <= s_ls s + n).
  { apply orb_true_iff in Econd. destruct Econd as [X|X].
    - apply N.ltb_lt in X. unfold n. lia.
    - apply andb_true_iff in X. destruct X as [_ X]. apply negb_true_iff, N.eqb_neq in X. lia. }
  destruct ((f =? TF_NONE) && (s_ls s + n <? 258)) eqn:Eearly.
  { unfold SQret, Dz. cbn [set_la mkc c_total_bytes c_dsize]. unfold C_DICT_SIZE, BS in *. lia. }
  replace (1 <=? s_ls s + n) with true by (symmetry; apply N.leb_le; exact Hpos).
  destruct (31744 <? s_bw s + 1) eqn:Ebw.
  - apply N.ltb_lt in Ebw. assert (Hbw1 : s_bw s + 1 = BS) by (unfold BS in *; lia).
    match goal with |- context [flush_block ?cc _ _] => set (c1 := cc) end.
    rewrite (flush_block_gen_eq c1 (s_cb s) TF_NONE).
    + destruct (flush_output (after_block c1) (s_cb s) (gblock_bytes c1 TF_NONE)) as [[nn c2] cb2] eqn:Efo.
      apply flush_output_fields in Efo. destruct Efo as [Et Ed].
      unfold after_block in Et, Ed. cbn [mkc c_total_bytes c_dsize] in Et, Ed.
      destruct (negb (nn =? 0)%Z).
      * unfold SQret, Dz. rewrite Et. lia.
      * unfold Dzs. cbn [s_bw s_c]. rewrite Et. lia.
    + unfold c1. cbn [set_la mkc c_flags]. rewrite F1. exact Hraw.
    + unfold c1. cbn [set_la mkc c_sbuf]. exact F3.
    + unfold c1. cbn [set_la mkc c_sbits]. exact F4.
    + unfold c1. cbn [set_la mkc c_wbits]. rewrite F2. exact Hwb.
    + left. reflexivity.
    + unfold c1. cbn [set_la mkc c_pending]. exact Hpe.
    + unfold c1. cbn [set_la mkc c_total_bytes]. unfold BS in *. lia.
    + unfold c1. cbn [set_la mkc c_la_pos c_cbdp c_total_bytes]. lia.
    + unfold c1. cbn [set_la mkc c_total_bytes c_dsize]. unfold C_DICT_SIZE, BS in *. lia.
  - apply N.ltb_ge in Ebw. unfold Dzs. cbn [s_bw s_c set_la mkc c_dsize]. unfold C_DICT_SIZE. lia.
Qed.

Lemma stored_turn_np2 R A C0 E f s :
  A < 2 ^ 32 -> legal_flush f -> SI2' R A C0 E f s -> Dzs s ->
  match stored_turn s with
  | inl s' => Dzs s'
  | inr r => SQnp r
  end.
Proof.
  intros HA Hlf HSI HDz. pose proof (stored_turn_ret2 R A C0 E f s HA Hlf HSI HDz) as X.
  destruct (stored_turn s) as [s'|r]; [exact X|]. destruct r as [[ok c cb src|]| |]; try contradiction. exact X.
Qed.

(* every turn of the engine that continues has moved one byte out of (input still offered + look-ahead) *)
Lemma stored_turn_measure R A C0 E f s s' :
  SI2' R A C0 E f s -> stored_turn s = inl s' -> s_inleft s' + s_ls s' + 1 = s_inleft s + s_ls s.
Proof.
  intros HSI.
  destruct HSI as (Hfix & Hfl & Hpe & Hin & Hil & HleE & HEt & Hsrc & Hlp & Hbw & Hls & Hd & Hcbuf & Hem).
  unfold stored_turn. cbv zeta.
  destruct ((0 <? s_inleft s) || negb (c_flush (s_c s) =? TF_NONE) && negb (s_ls s =? 0)) eqn:Econd; [|discriminate].
  unfold csub, C_MAX_MATCH. replace (s_ls s <=? 258) with true by (symmetry; apply N.leb_le; lia).
  set (n := N.min (s_inleft s) (258 - s_ls s)).
  assert (Hpos : 1 <= s_ls s + n).
  { apply orb_true_iff in Econd. destruct Econd as [X|X].
    - apply N.ltb_lt in X. unfold n. lia.
    - apply andb_true_iff in X. destruct X as [_ X]. apply negb_true_iff, N.eqb_neq in X. lia. }
  destruct ((c_flush (s_c s) =? TF_NONE) && (s_ls s + n <? 258)); [discriminate|].
  replace (1 <=? s_ls s + n) with true by (symmetry; apply N.leb_le; exact Hpos).
  destruct (31744 <? s_bw s + 1).
  - destruct (flush_block _ _ _) as [[nn c2 cb2|c2 cb2|]| |]; try discriminate.
    destruct (negb (nn =? 0)%Z); [discriminate|].
    intros H; inversion H; subst s'; clear H. cbn [s_inleft s_ls]. unfold n. lia.
  - intros H; inversion H; subst s'; clear H. cbn [s_inleft s_ls]. unfold n. lia.
Qed.

Lemma pow40_nat' n : N.of_nat n < 2 ^ 40 -> (n < 2 ^ 40)%nat.
Proof.
  intros H. apply Nat.compare_lt_iff. rewrite Nat2N.inj_compare. apply N.compare_lt_iff.
  rewrite Nat2N.inj_pow. exact H.
Qed.

Lemma compress_stored_np2 R A c cb input E f :
  A < 2 ^ 32 -> legal_flush f -> BI2' R A c cb -> c_flush c = f -> c_pending c = [] -> Dz c ->
  c_la_pos c + c_la_size c <= E -> E <= total data ->
  input = slice data (c_la_pos c + c_la_size c) E ->
  SQnp (compress_stored c cb input).
Proof.
  intros HA Hlf HBI Hfl Hpe HDz HCE HEt Hin. unfold compress_stored.
  set (s0 := {| s_c := c; s_cb := cb; s_in := input; s_inleft := N.of_nat (length input); s_src := 0;
               s_bw := c_total_bytes c; s_ls := c_la_size c; s_lp := c_la_pos c |}).
  set (C0 := c_la_pos c + c_la_size c).
  assert (H0 : SI2' R A C0 E f s0 /\ Dzs s0).
  { split; [|exact HDz].
    destruct HBI as (Hfix & Hle & Hlp & Htb & Hls & Hd & Hcbuf & Hem).
    unfold SI2, s0. cbn [s_c s_cb s_in s_inleft s_src s_bw s_ls s_lp].
    destruct Hfix as (F1 & F2 & F3 & F4 & F5 & F6). unfold cfix.
    repeat split; try assumption; try (unfold C0; lia).
    subst input. apply (slice_length data wb Hwb); assumption. }
  pose proof (iter_pow_inv stored_turn (fun s => SI2' R A C0 E f s /\ Dzs s) SQnp) as H.
  assert (H1 : forall s s', SI2' R A C0 E f s /\ Dzs s -> stored_turn s = inl s' -> SI2' R A C0 E f s' /\ Dzs s').
  { intros s s' [Hs Hz] Ht. split.
    - pose proof (stored_turn_SI2 data flags wb Hraw Hwb R A C0 E f s HA Hlf Hs) as X. rewrite Ht in X. exact X.
    - pose proof (stored_turn_np2 R A C0 E f s HA Hlf Hs Hz) as X. rewrite Ht in X. exact X. }
  assert (H2 : forall s r, SI2' R A C0 E f s /\ Dzs s -> stored_turn s = inr r -> SQnp r).
  { intros s r [Hs Hz] Ht. pose proof (stored_turn_np2 R A C0 E f s HA Hlf Hs Hz) as X. rewrite Ht in X. exact X. }
  specialize (H H1 H2 40%nat s0 H0).
  destruct (iter_pow 40 stored_turn s0) as [s'|rr]; [exact I|exact H].
Qed.

(* the engine returns: it neither panics nor runs out of fuel, for inputs under 2^40 bytes *)
Lemma compress_stored_returns R A c cb input E f :
  A < 2 ^ 32 -> legal_flush f -> BI2' R A c cb -> c_flush c = f -> c_pending c = [] -> Dz c ->
  c_la_pos c + c_la_size c <= E -> E <= total data ->
  input = slice data (c_la_pos c + c_la_size c) E ->
  N.of_nat (length input) + c_la_size c + 1 < 2 ^ 40 ->
  exists ok c' cb' src, compress_stored c cb input = Ret (SRet ok c' cb' src).
Proof.
  intros HA Hlf HBI Hfl Hpe HDz HCE HEt Hin Hsmall.
  unfold compress_stored.
  set (s0 := {| s_c := c; s_cb := cb; s_in := input; s_inleft := N.of_nat (length input); s_src := 0;
               s_bw := c_total_bytes c; s_ls := c_la_size c; s_lp := c_la_pos c |}).
  set (C0 := c_la_pos c + c_la_size c).
  assert (H0 : SI2' R A C0 E f s0).
  { destruct HBI as (Hfix & Hle & Hlp & Htb & Hls & Hd & Hcbuf & Hem).
    unfold SI2, s0. cbn [s_c s_cb s_in s_inleft s_src s_bw s_ls s_lp].
    destruct Hfix as (F1 & F2 & F3 & F4 & F5 & F6). unfold cfix.
    repeat split; try assumption; try (unfold C0; lia).
    subst input. apply (slice_length data wb Hwb); assumption. }
  set (mu := fun s : sstate => N.to_nat (s_inleft s + s_ls s)).
  assert (H1 : forall s s', SI2' R A C0 E f s -> stored_turn s = inl s' -> SI2' R A C0 E f s' /\ (mu s' < mu s)%nat).
  { intros s s' Hs Ht. split.
    - pose proof (stored_turn_SI2 data flags wb Hraw Hwb R A C0 E f s HA Hlf Hs) as X. rewrite Ht in X. exact X.
    - pose proof (stored_turn_measure R A C0 E f s s' Hs Ht). unfold mu. lia. }
  destruct (steps_measure' stored_turn (SI2' R A C0 E f) mu H1 (S (mu s0)) s0 H0 (Nat.lt_succ_diag_r _)) as [r Hr].
  assert (Hle : (S (mu s0) <= 2 ^ 40)%nat).
  { assert (X : (mu s0 < 2 ^ 40)%nat); [|exact X]. apply pow40_nat'. unfold mu, s0. cbn [s_inleft s_ls]. rewrite N2Nat.id. lia. }
  rewrite (iter_pow_inr stored_turn _ 40 s0 r Hr Hle).
  (* the result comes from a turn taken in a state satisfying the invariants *)
  assert (HQ : SQret r).
  { pose proof (steps_inv stored_turn (fun s => SI2' R A C0 E f s /\ Dzs s) SQret) as X.
    assert (X1 : forall s s', SI2' R A C0 E f s /\ Dzs s -> stored_turn s = inl s' -> SI2' R A C0 E f s' /\ Dzs s').
    { intros s s' [Hs Hz] Ht. split; [exact (proj1 (H1 s s' Hs Ht))|].
      pose proof (stored_turn_ret2 R A C0 E f s HA Hlf Hs Hz) as Y. rewrite Ht in Y. exact Y. }
    assert (X2 : forall s r0, SI2' R A C0 E f s /\ Dzs s -> stored_turn s = inr r0 -> SQret r0).
    { intros s r0 [Hs Hz] Ht. pose proof (stored_turn_ret2 R A C0 E f s HA Hlf Hs Hz) as Y. rewrite Ht in Y. exact Y. }
    specialize (X X1 X2 (S (mu s0)) s0 (conj H0 HDz)). rewrite Hr in X. exact X. }
  destruct r as [[ok c' cb' src|]| |]; try contradiction. eauto.
Qed.

Definition CRnp2 (r : res cres) : Prop :=
  match r with
  | Panic _ => False
  | Ret CUnmodelled => False
  | Ret (CRet r) => Dz (r_comp r)
  | OutOfFuel => True
  end.

Lemma compress_np2 R c n input E out_len f :
  legal_flush f -> GI2' R c n -> Dz c ->
  (c_finished c = false -> n <= E /\ E <= total data /\ input = slice data n E) ->
  CRnp2 (compress c input out_len f).
Proof.
  intros Hlf HGI HDz Hpre. pose proof HGI as [Hprev HG].
  unfold compress, compress_inner. rewrite Hprev. cbn [negb orb].
  destruct (negb (negb (c_flush c =? TF_FINISH) || (f =? TF_FINISH))).
  { unfold CRnp2, Dz in *. cbn [r_comp set_prev set_flush mkc c_total_bytes c_dsize]. exact HDz. }
  set (c0 := set_flush c f).
  set (cb0 := CBuf out_len [] 0).
  assert (Hdrain : forall st c' cb', flush_output_buffer c0 cb0 = (st, c', cb') ->
            CRnp2 (Ret (CRet {| r_status := st; r_in := 0; r_out := cb_written cb'; r_comp := set_prev c' st; r_cb := cb' |}))).
  { intros st c' cb' Hf. apply fob_np in Hf. destruct Hf as (_ & Ht & Hd).
    unfold CRnp2, Dz in *. cbn [r_comp set_prev mkc c_total_bytes c_dsize]. rewrite Ht, Hd. exact HDz. }
  change (c_pending c0) with (c_pending c). change (c_finished c0) with (c_finished c).
  change (c_flags c0) with (c_flags c).
  destruct HG as [(A & HBI & HAv & Hn & Had)|[Hfin Hfw]].
  2:{ rewrite Hfin, orb_true_r.
      destruct (flush_output_buffer c0 cb0) as [[st c'] cb'] eqn:Ef. apply Hdrain. reflexivity. }
  pose proof (adler_lt wb Hwb A HAv) as HA.
  pose proof HBI as (Hfix & Hle & Hlp & Htb & Hls & Hd & Hcbuf & Hem).
  destruct Hfix as (F1 & F2 & F3 & F4 & F5 & F6).
  rewrite F5, orb_false_r.
  destruct (Hpre F5) as (HnE & HEt & Hin). clear Hpre.
  destruct (c_pending c) as [|p ps] eqn:Hpe; cbn [negb].
  2:{ destruct (flush_output_buffer c0 cb0) as [[st c'] cb'] eqn:Ef. apply Hdrain. reflexivity. }
  clear Hdrain.
  rewrite F1, Hraw. cbn [negb].
  assert (HBI0 : BI2' R A c0 cb0).
  { unfold BI2, cfix, c0, cb0.
    cbn [set_flush mkc c_flags c_wbits c_sbuf c_sbits c_finished c_adler c_la_pos c_la_size
         c_cbdp c_total_bytes c_block_index c_dict c_pending].
    repeat split; try assumption; eauto.
    all: try (destruct Hem as (chunks & H1 & H2 & H3 & H4); exists chunks;
              cbn [set_flush mkc c_cbdp c_block_index c_pending cb_written rev_append app] in *;
              try rewrite Hpe in *; repeat split; assumption). }
  subst n.
  pose proof (compress_stored_post2 data flags wb Hraw Hwb R A c0 cb0 input E f HA Hlf HBI0 eq_refl Hpe HnE HEt Hin) as HS.
  pose proof (compress_stored_np2 R A c0 cb0 input E f HA Hlf HBI0 eq_refl Hpe HDz HnE HEt Hin) as HSn.
  change (c_la_pos c0 + c_la_size c0) with (c_la_pos c + c_la_size c) in HS.
  destruct (compress_stored c0 cb0 input) as [sr| |]; cbn [bind]; try exact I; try contradiction.
  destruct sr as [ok c1 cb1 src|]; [|contradiction].
  destruct HS as (Hok & HBI1 & Hfl1 & Hsrc & HsrcE & Hend). subst ok.
  unfold SQnp in HSn.
  pose proof HBI1 as (Hfix1 & Hle1 & Hlp1 & Htb1 & Hls1 & Hd1 & Hcbuf1 & Hem1).
  destruct Hfix1 as (G1 & G2 & G3 & G4 & G5 & G6).
  set (c2 := if hasf (c_flags c1) FLAG_ZLIB || hasf (c_flags c1) FLAG_ADLER
             then set_adler c1 (adler32 (c_adler c1) (firstn (N.to_nat src) input)) else c1).
  assert (H2 : c_flags c2 = flags /\ c_wbits c2 = wb /\ c_sbuf c2 = 0 /\ c_sbits c2 = 0 /\
               c_flush c2 = f /\ c_pending c2 = c_pending c1 /\ c_la_pos c2 = c_la_pos c1 /\
               c_la_size c2 = c_la_size c1 /\ c_cbdp c2 = c_cbdp c1 /\ c_total_bytes c2 = c_total_bytes c1 /\
               c_dsize c2 = c_dsize c1).
  { unfold c2. rewrite G1. destruct (hasf flags FLAG_ZLIB || hasf flags FLAG_ADLER);
      cbn [set_adler mkc c_flags c_wbits c_sbuf c_sbits c_finished c_adler c_la_pos c_la_size c_flush c_prev
           c_cbdp c_total_bytes c_block_index c_dict c_pending c_dsize]; repeat split; try assumption; try reflexivity. }
  destruct H2 as (K1 & K2 & K3 & K4 & Hfl2 & Hpe2 & Hlp2 & Hls2 & Hcb2 & Htb2 & Hds2).
  clearbody c2.
  rewrite Hfl2, Hls2, Hpe2.
  destruct Hcbuf1 as (len1 & w1 & ofs1 & Ecb1).
  match goal with |- CRnp2 (bind (if ?b then _ else _) _) => destruct b eqn:Efin end.
  - apply andb_true_iff in Efin. destruct Efin as [E0 E2]. apply andb_true_iff in E0. destruct E0 as [Enn E1].
    apply negb_true_iff, orb_false_iff in E2. destruct E2 as [_ E3].
    apply negb_false_iff in E3. destruct (c_pending c1) as [|? ?] eqn:Hp1; [|discriminate]. clear E3.
    rewrite (flush_block_gen_eq c2 cb1 f);
      [|rewrite K1; exact Hraw|exact K3|exact K4|rewrite K2; exact Hwb|exact Hlf|exact Hpe2
       |rewrite Htb2; unfold BS in *; lia|rewrite Hlp2, Hcb2, Htb2; exact Hlp1
       |unfold Dz in HSn; rewrite Htb2, Hds2; exact HSn].
    cbn [bind]. rewrite Ecb1.
    destruct (flush_output (after_block c2) (CBuf len1 w1 ofs1) (gblock_bytes c2 f)) as [[nn c3] cb3] eqn:Efo.
    pose proof (flush_output_nonneg wb Hwb _ _ _ _ _ _ _ _ Efo) as Hn0.
    pose proof (flush_output_fields _ _ _ _ _ _ Efo) as [Et3 Ed3].
    unfold after_block in Et3, Ed3. cbn [mkc c_total_bytes c_dsize] in Et3, Ed3.
    replace (nn <? 0)%Z with false by (symmetry; apply Z.ltb_ge; exact Hn0).
    cbn [bind].
    assert (Hcb3 : exists w3 ofs3, cb3 = CBuf len1 w3 ofs3).
    { unfold flush_output in Efo. destruct (N.of_nat (length (gblock_bytes c2 f)) =? 0); [inversion Efo; eauto|].
      destruct (ntake (gblock_bytes c2 f) (len1 - ofs1)) as [[now later] k]. inversion Efo; eauto. }
    destruct Hcb3 as (w3 & ofs3 & ->).
    set (c4 := if c_flush (set_finished c3 (c_flush c3 =? TF_FINISH)) =? TF_FULL
               then set_dsize (set_finished c3 (c_flush c3 =? TF_FINISH)) 0
               else set_finished c3 (c_flush c3 =? TF_FINISH)).
    assert (Hc4 : c_total_bytes c4 <= c_dsize c4).
    { unfold c4. destruct (_ =? TF_FULL); cbn [set_dsize set_finished mkc c_total_bytes c_dsize]; rewrite Et3; lia. }
    clearbody c4.
    destruct (flush_output_buffer c4 (CBuf len1 w3 ofs3)) as [[st c5] cb5] eqn:Ef5.
    apply fob_np in Ef5. destruct Ef5 as (_ & Ht5 & Hd5).
    unfold CRnp2, Dz. cbn [r_comp set_prev mkc c_total_bytes c_dsize]. rewrite Ht5, Hd5. exact Hc4.
  - cbn [bind]. rewrite Ecb1.
    destruct (flush_output_buffer c2 (CBuf len1 w1 ofs1)) as [[st c3] cb3] eqn:Ef3.
    apply fob_np in Ef3. destruct Ef3 as (_ & Ht3 & Hd3).
    unfold CRnp2, Dz in *. cbn [r_comp set_prev mkc c_total_bytes c_dsize]. rewrite Ht3, Hd3, Htb2, Hds2. exact HSn.
Qed.

Definition CRret (r : res cres) : Prop :=
  match r with Ret (CRet r) => Dz (r_comp r) | _ => False end.

(* ... and it returns, for chunks under 2^40 bytes *)
Lemma compress_ret2 R c n input E out_len f :
  N.of_nat (length input) + 259 < 2 ^ 40 ->
  legal_flush f -> GI2' R c n -> Dz c ->
  (c_finished c = false -> n <= E /\ E <= total data /\ input = slice data n E) ->
  CRret (compress c input out_len f).
Proof.
  intros Hsmall Hlf HGI HDz Hpre. pose proof HGI as [Hprev HG].
  unfold compress, compress_inner. rewrite Hprev. cbn [negb orb].
  destruct (negb (negb (c_flush c =? TF_FINISH) || (f =? TF_FINISH))).
  { unfold CRret, Dz in *. cbn [r_comp set_prev set_flush mkc c_total_bytes c_dsize]. exact HDz. }
  set (c0 := set_flush c f).
  set (cb0 := CBuf out_len [] 0).
  assert (Hdrain : forall st c' cb', flush_output_buffer c0 cb0 = (st, c', cb') ->
            CRret (Ret (CRet {| r_status := st; r_in := 0; r_out := cb_written cb'; r_comp := set_prev c' st; r_cb := cb' |}))).
  { intros st c' cb' Hf. apply fob_np in Hf. destruct Hf as (_ & Ht & Hd).
    unfold CRret, Dz in *. cbn [r_comp set_prev mkc c_total_bytes c_dsize]. rewrite Ht, Hd. exact HDz. }
  change (c_pending c0) with (c_pending c). change (c_finished c0) with (c_finished c).
  change (c_flags c0) with (c_flags c).
  destruct HG as [(A & HBI & HAv & Hn & Had)|[Hfin Hfw]].
  2:{ rewrite Hfin, orb_true_r.
      destruct (flush_output_buffer c0 cb0) as [[st c'] cb'] eqn:Ef. apply Hdrain. reflexivity. }
  pose proof (adler_lt wb Hwb A HAv) as HA.
  pose proof HBI as (Hfix & Hle & Hlp & Htb & Hls & Hd & Hcbuf & Hem).
  destruct Hfix as (F1 & F2 & F3 & F4 & F5 & F6).
  rewrite F5, orb_false_r.
  destruct (Hpre F5) as (HnE & HEt & Hin). clear Hpre.
  destruct (c_pending c) as [|p ps] eqn:Hpe; cbn [negb].
  2:{ destruct (flush_output_buffer c0 cb0) as [[st c'] cb'] eqn:Ef. apply Hdrain. reflexivity. }
  clear Hdrain.
  rewrite F1, Hraw. cbn [negb].
  assert (HBI0 : BI2' R A c0 cb0).
  { unfold BI2, cfix, c0, cb0.
    cbn [set_flush mkc c_flags c_wbits c_sbuf c_sbits c_finished c_adler c_la_pos c_la_size
         c_cbdp c_total_bytes c_block_index c_dict c_pending].
    repeat split; try assumption; eauto.
    all: try (destruct Hem as (chunks & H1 & H2 & H3 & H4); exists chunks;
              cbn [set_flush mkc c_cbdp c_block_index c_pending cb_written rev_append app] in *;
              try rewrite Hpe in *; repeat split; assumption). }
  subst n.
  pose proof (compress_stored_post2 data flags wb Hraw Hwb R A c0 cb0 input E f HA Hlf HBI0 eq_refl Hpe HnE HEt Hin) as HS.
  pose proof (compress_stored_np2 R A c0 cb0 input E f HA Hlf HBI0 eq_refl Hpe HDz HnE HEt Hin) as HSn.
  change (c_la_pos c0 + c_la_size c0) with (c_la_pos c + c_la_size c) in HS.
  destruct (compress_stored_returns R A c0 cb0 input E f HA Hlf HBI0 eq_refl Hpe HDz HnE HEt Hin)
    as (ok & c1 & cb1 & src & Ecs).
  { change (c_la_size c0) with (c_la_size c). lia. }
  rewrite Ecs in HS, HSn |- *. cbn [bind].
  destruct HS as (Hok & HBI1 & Hfl1 & Hsrc & HsrcE & Hend). subst ok.
  unfold SQnp in HSn.
  pose proof HBI1 as (Hfix1 & Hle1 & Hlp1 & Htb1 & Hls1 & Hd1 & Hcbuf1 & Hem1).
  destruct Hfix1 as (G1 & G2 & G3 & G4 & G5 & G6).
  set (c2 := if hasf (c_flags c1) FLAG_ZLIB || hasf (c_flags c1) FLAG_ADLER
             then set_adler c1 (adler32 (c_adler c1) (firstn (N.to_nat src) input)) else c1).
  assert (H2 : c_flags c2 = flags /\ c_wbits c2 = wb /\ c_sbuf c2 = 0 /\ c_sbits c2 = 0 /\
               c_flush c2 = f /\ c_pending c2 = c_pending c1 /\ c_la_pos c2 = c_la_pos c1 /\
               c_la_size c2 = c_la_size c1 /\ c_cbdp c2 = c_cbdp c1 /\ c_total_bytes c2 = c_total_bytes c1 /\
               c_dsize c2 = c_dsize c1).
  { unfold c2. rewrite G1. destruct (hasf flags FLAG_ZLIB || hasf flags FLAG_ADLER);
      cbn [set_adler mkc c_flags c_wbits c_sbuf c_sbits c_finished c_adler c_la_pos c_la_size c_flush c_prev
           c_cbdp c_total_bytes c_block_index c_dict c_pending c_dsize]; repeat split; try assumption; try reflexivity. }
  destruct H2 as (K1 & K2 & K3 & K4 & Hfl2 & Hpe2 & Hlp2 & Hls2 & Hcb2 & Htb2 & Hds2).
  clearbody c2.
  rewrite Hfl2, Hls2, Hpe2.
  destruct Hcbuf1 as (len1 & w1 & ofs1 & Ecb1).
  match goal with |- CRret (bind (if ?b then _ else _) _) => destruct b eqn:Efin end.
  - apply andb_true_iff in Efin. destruct Efin as [E0 E2]. apply andb_true_iff in E0. destruct E0 as [Enn E1].
    apply negb_true_iff, orb_false_iff in E2. destruct E2 as [_ E3].
    apply negb_false_iff in E3. destruct (c_pending c1) as [|? ?] eqn:Hp1; [|discriminate]. clear E3.
    rewrite (flush_block_gen_eq c2 cb1 f);
      [|rewrite K1; exact Hraw|exact K3|exact K4|rewrite K2; exact Hwb|exact Hlf|exact Hpe2
       |rewrite Htb2; unfold BS in *; lia|rewrite Hlp2, Hcb2, Htb2; exact Hlp1
       |unfold Dz in HSn; rewrite Htb2, Hds2; exact HSn].
    cbn [bind]. rewrite Ecb1.
    destruct (flush_output (after_block c2) (CBuf len1 w1 ofs1) (gblock_bytes c2 f)) as [[nn c3] cb3] eqn:Efo.
    pose proof (flush_output_nonneg wb Hwb _ _ _ _ _ _ _ _ Efo) as Hn0.
    pose proof (flush_output_fields _ _ _ _ _ _ Efo) as [Et3 Ed3].
    unfold after_block in Et3, Ed3. cbn [mkc c_total_bytes c_dsize] in Et3, Ed3.
    replace (nn <? 0)%Z with false by (symmetry; apply Z.ltb_ge; exact Hn0).
    cbn [bind].
    assert (Hcb3 : exists w3 ofs3, cb3 = CBuf len1 w3 ofs3).
    { unfold flush_output in Efo. destruct (N.of_nat (length (gblock_bytes c2 f)) =? 0); [inversion Efo; eauto|].
      destruct (ntake (gblock_bytes c2 f) (len1 - ofs1)) as [[now later] k]. inversion Efo; eauto. }
    destruct Hcb3 as (w3 & ofs3 & ->).
    set (c4 := if c_flush (set_finished c3 (c_flush c3 =? TF_FINISH)) =? TF_FULL
               then set_dsize (set_finished c3 (c_flush c3 =? TF_FINISH)) 0
               else set_finished c3 (c_flush c3 =? TF_FINISH)).
    assert (Hc4 : c_total_bytes c4 <= c_dsize c4).
    { unfold c4. destruct (_ =? TF_FULL); cbn [set_dsize set_finished mkc c_total_bytes c_dsize]; rewrite Et3; lia. }
    clearbody c4.
    destruct (flush_output_buffer c4 (CBuf len1 w3 ofs3)) as [[st c5] cb5] eqn:Ef5.
    apply fob_np in Ef5. destruct Ef5 as (_ & Ht5 & Hd5).
    unfold CRret, Dz. cbn [r_comp set_prev mkc c_total_bytes c_dsize]. rewrite Ht5, Hd5. exact Hc4.
  - cbn [bind]. rewrite Ecb1.
    destruct (flush_output_buffer c2 (CBuf len1 w1 ofs1)) as [[st c3] cb3] eqn:Ef3.
    apply fob_np in Ef3. destruct Ef3 as (_ & Ht3 & Hd3).
    unfold CRret, Dz in *. cbn [r_comp set_prev mkc c_total_bytes c_dsize]. rewrite Ht3, Hd3, Htb2, Hds2. exact HSn.
Qed.

(* every schedule *)
Theorem drive_np : forall sched c rest acc n,
  Forall (fun it => legal_flush (snd it)) sched ->
  GI2' acc c n -> Dz c -> (c_finished c = false -> rest = skipn (N.to_nat n) data) ->
  NP (drive c rest sched acc n).
Proof.
  induction sched as [|[[m out_len] f] sched IH]; intros c rest acc n Hleg HGI HDz Hrest; cbn [drive]; [exact I|].
  inversion Hleg as [|it its Hf Hl']; subst. cbn [snd] in Hf.
  assert (Hpre : c_finished c = false ->
                 n <= N.min (n + m) (total data) /\ N.min (n + m) (total data) <= total data /\
                 firstn (N.to_nat m) rest = slice data n (N.min (n + m) (total data))).
  { intros Hnf. destruct HGI as [_ [(A & HBI & _ & Hn & _)|[Hfin _]]]; [|congruence].
    destruct HBI as (_ & Hle & _). subst n.
    split; [lia|]. split; [lia|].
    rewrite (Hrest Hnf). unfold slice. rewrite firstn_min, skipn_length. f_equal. unfold StoredModel.total in *. lia. }
  pose proof (compress_np2 acc c n _ _ out_len f Hf HGI HDz Hpre) as Hnp.
  destruct (compress c (firstn (N.to_nat m) rest) out_len f) as [cr| |] eqn:Ec; cbn [bind]; try exact I; try contradiction.
  destruct cr as [r|]; [|contradiction].
  pose proof (compress_GI2 data flags wb Hraw Hwb acc c n _ _ out_len f r Hf HGI Hpre Ec) as Hp.
  unfold call_post2 in Hp. unfold CRnp2 in Hnp.
  destruct (r_status r); try exact I.
  apply (IH (r_comp r) _ _ _ Hl' Hp Hnp).
  intros Hnf. destruct Hp as [_ [(A & HBI & _ & Hn' & _)|[Hfin _]]]; [|congruence].
  assert (Hcf : c_finished c = false).
  { destruct HGI as [_ [(A0 & (Hfx & _) & _)|[Hfin Hfw]]]; [destruct Hfx as (_ & _ & _ & _ & X & _); exact X|].
    exfalso. clear - Hfin Hnf Ec. unfold compress, compress_inner in Ec.
    destruct (negb _ || negb _); [inversion Ec; subst r; cbn in Hnf; congruence|].
    change (c_finished (set_flush c f)) with (c_finished c) in Ec. rewrite Hfin, orb_true_r in Ec.
    destruct (flush_output_buffer (set_flush c f) (CBuf out_len [] 0)) as [[st c'] cb'] eqn:Ef.
    apply fob_vout in Ef. destruct Ef as (_ & _ & Ec' & _).
    inversion Ec; subst r; clear Ec. cbn [r_comp] in Hnf. rewrite Ec' in Hnf. cbn in Hnf. congruence. }
  pose proof (compress_counts _ _ _ _ _ Ec) as [Hrin _].
  rewrite (Hrest Hcf), skipn_skipn_add. f_equal. lia.
Qed.

(* every schedule returns *)
Theorem drive_returns : N.of_nat (length data) + 259 < 2 ^ 40 -> forall sched c rest acc n,
  Forall (fun it => legal_flush (snd it)) sched ->
  GI2' acc c n -> Dz c -> (c_finished c = false -> rest = skipn (N.to_nat n) data) ->
  (exists k, rest = skipn k data) ->
  exists result, drive c rest sched acc n = Ret result.
Proof.
  intros Hsmall. induction sched as [|[[m out_len] f] sched IH]; intros c rest acc n Hleg HGI HDz Hrest Hsuf; cbn [drive]; [eexists; reflexivity|].
  inversion Hleg as [|it its Hf Hl']; subst. cbn [snd] in Hf.
  assert (Hpre : c_finished c = false ->
                 n <= N.min (n + m) (total data) /\ N.min (n + m) (total data) <= total data /\
                 firstn (N.to_nat m) rest = slice data n (N.min (n + m) (total data))).
  { intros Hnf. destruct HGI as [_ [(A & HBI & _ & Hn & _)|[Hfin _]]]; [|congruence].
    destruct HBI as (_ & Hle & _). subst n.
    split; [lia|]. split; [lia|].
    rewrite (Hrest Hnf). unfold slice. rewrite firstn_min, skipn_length. f_equal. unfold StoredModel.total in *. lia. }
  assert (Hlen : N.of_nat (length (firstn (N.to_nat m) rest)) + 259 < 2 ^ 40).
  { destruct Hsuf as [k ->]. rewrite firstn_length, skipn_length. lia. }
  pose proof (compress_ret2 acc c n _ _ out_len f Hlen Hf HGI HDz Hpre) as Hnp.
  destruct (compress c (firstn (N.to_nat m) rest) out_len f) as [cr| |] eqn:Ec; cbn [bind]; try contradiction.
  destruct cr as [r|]; [|contradiction].
  pose proof (compress_GI2 data flags wb Hraw Hwb acc c n _ _ out_len f r Hf HGI Hpre Ec) as Hp.
  unfold call_post2 in Hp. unfold CRret in Hnp.
  destruct (r_status r); try (eexists; reflexivity).
  apply (IH (r_comp r) _ _ _ Hl' Hp Hnp); [|destruct Hsuf as [k ->]; exists (k + N.to_nat (r_in r))%nat; apply skipn_skipn_add].
  intros Hnf. destruct Hp as [_ [(A & HBI & _ & Hn' & _)|[Hfin _]]]; [|congruence].
  assert (Hcf : c_finished c = false).
  { destruct HGI as [_ [(A0 & (Hfx & _) & _)|[Hfin Hfw]]]; [destruct Hfx as (_ & _ & _ & _ & X & _); exact X|].
    exfalso. clear - Hfin Hnf Ec. unfold compress, compress_inner in Ec.
    destruct (negb _ || negb _); [inversion Ec; subst r; cbn in Hnf; congruence|].
    change (c_finished (set_flush c f)) with (c_finished c) in Ec. rewrite Hfin, orb_true_r in Ec.
    destruct (flush_output_buffer (set_flush c f) (CBuf out_len [] 0)) as [[st c'] cb'] eqn:Ef.
    apply fob_vout in Ef. destruct Ef as (_ & _ & Ec' & _).
    inversion Ec; subst r; clear Ec. cbn [r_comp] in Hnf. rewrite Ec' in Hnf. cbn in Hnf. congruence. }
  pose proof (compress_counts _ _ _ _ _ Ec) as [Hrin _].
  rewrite (Hrest Hcf), skipn_skipn_add. f_equal. lia.
Qed.

End Sched.

(* ------------------------------------------------------------------ the statement *)
Theorem level0_every_schedule_never_panics (data : list N) (flags wb : N) sched :
  hasf flags FLAG_RAW = true -> wb <= 15 ->
  Forall (fun it => legal_flush (snd it)) sched ->
  match drive (comp_new flags wb) data sched [] 0 with Panic _ => False | _ => True end.
Proof.
  intros Hraw Hwb Hleg.
  apply (drive_np data flags wb Hraw Hwb sched (comp_new flags wb) data [] 0 Hleg (GI2_init data flags wb)).
  - unfold Dz, comp_new. cbn. lia.
  - intros _. reflexivity.
Qed.

Theorem level0_every_schedule_returns (data : list N) (flags wb : N) sched :
  hasf flags FLAG_RAW = true -> wb <= 15 ->
  Forall (fun it => legal_flush (snd it)) sched ->
  N.of_nat (length data) + 259 < 2 ^ 40 ->
  exists result, drive (comp_new flags wb) data sched [] 0 = Ret result.
Proof.
  intros Hraw Hwb Hleg Hsmall.
  apply (drive_returns data flags wb Hraw Hwb Hsmall sched (comp_new flags wb) data [] 0 Hleg (GI2_init data flags wb)).
  - unfold Dz, comp_new. cbn. lia.
  - intros _. reflexivity.
  - exists 0%nat. reflexivity.
Qed.
