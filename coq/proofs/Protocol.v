(* Protocol clauses of the streaming wrappers that follow from the wrappers' own control flow
   (models: InflateStream.inflate, DeflateCore.deflate / compress_inner). *)
From Coq Require Import NArith ZArith List Bool Lia.
From MZ.lib Require Import Arr Bits Mach.
From MZ.model Require Import InflateCore InflateStream.
From MZ.model Require DeflateCore.
From MZ.proofs Require Import IterPow.
Import ListNotations.
Local Open Scope N_scope.

(* ---------------------------------------------------------------- inflate() *)

(* a full-flush request is a stream error and has no effect at all *)
Lemma inflate_full_flush s input out_len :
  inflate s input out_len FL_FULL
  = Ret {| sr_code := MZ_ERR_STREAM; sr_in := 0; sr_out := []; sr_state := s |}.
Proof. reflexivity. Qed.

(* errors are sticky: once the last low-level status is negative, every later call (other
   than a full-flush request) returns the same error class with nothing consumed or written,
   and the state stays in that class *)
Lemma inflate_sticky_error s input out_len flush :
  flush <> FL_FULL -> is_neg (is_last s) = true ->
  exists code,
    inflate s input out_len flush
    = Ret {| sr_code := code; sr_in := 0; sr_out := []; sr_state := set_first s false |}
    /\ (code = MZ_ERR_BUF \/ code = MZ_ERR_DATA)
    /\ (code = MZ_ERR_DATA <-> status_eqb (is_last s) FailedCannotMakeProgress = false)
    /\ is_last (set_first s false) = is_last s.
Proof.
  intros Hf Hn. unfold inflate.
  destruct (flush =? FL_FULL) eqn:E; [apply N.eqb_eq in E; contradiction|].
  cbn [set_first mk_is is_last].
  destruct (status_eqb (is_last s) FailedCannotMakeProgress) eqn:Ec.
  - exists MZ_ERR_BUF. split; [reflexivity|]. split; [left; reflexivity|]. split; [|reflexivity].
    split; [discriminate|discriminate].
  - rewrite Hn. exists MZ_ERR_DATA. split; [reflexivity|]. split; [right; reflexivity|]. split; [|reflexivity].
    split; reflexivity.
Qed.

(* after Finish has been requested, any other flush value is a stream error with no effect
   on the stream state other than clearing the first-call mark *)
Lemma inflate_nonfinish_after_finish s input out_len flush :
  flush <> FL_FULL -> flush <> FL_FINISH -> is_neg (is_last s) = false -> is_flushed s = true ->
  inflate s input out_len flush
  = Ret {| sr_code := MZ_ERR_STREAM; sr_in := 0; sr_out := []; sr_state := set_first s false |}.
Proof.
  intros Hf Hn Hl Hfl. unfold inflate.
  destruct (flush =? FL_FULL) eqn:E; [apply N.eqb_eq in E; contradiction|].
  cbn [set_first mk_is is_last is_flushed].
  assert (Hc : status_eqb (is_last s) FailedCannotMakeProgress = false).
  { unfold status_eqb, is_neg in *. destruct (is_last s); cbn in *; try reflexivity; discriminate. }
  rewrite Hc, Hl, Hfl.
  destruct (flush =? FL_FINISH) eqn:E2; [apply N.eqb_eq in E2; contradiction|]. reflexivity.
Qed.

(* ---------------------------------------------------------------- deflate() *)
Import DeflateCore.

(* an empty output buffer is refused without side effects *)
Lemma deflate_empty_output c input flush :
  deflate c input 0 flush = Ret (DRet D_MZ_ERR_BUF 0 [] c).
Proof. reflexivity. Qed.

(* after the stream has ended, Finish keeps returning stream end with nothing written and
   anything else is a buffer error; the compressor is untouched *)
Lemma deflate_after_done c input out_len flush :
  out_len <> 0 -> c_prev c = TDone ->
  deflate c input out_len flush
  = Ret (if flush =? 4 then DRet D_MZ_STREAM_END 0 [] c else DRet D_MZ_ERR_BUF 0 [] c).
Proof.
  intros Ho Hp. unfold deflate.
  destruct (out_len =? 0) eqn:E; [apply N.eqb_eq in E; contradiction|].
  rewrite Hp. reflexivity.
Qed.

(* a non-Finish call after Finish (before the end) is a parameter error: nothing is consumed or
   written, and the compressor only records the error *)
Lemma compress_nonfinish_after_finish c cb input flush :
  c_flush c = TF_FINISH -> flush <> TF_FINISH ->
  compress_inner c cb input flush
  = Ret (CRet {| r_status := TBadParam; r_in := 0; r_out := [];
                 r_comp := set_prev (set_flush c flush) TBadParam; r_cb := cb |}).
Proof.
  intros Hf Hn. unfold compress_inner. rewrite Hf.
  change (TF_FINISH =? TF_FINISH) with true.
  destruct (flush =? TF_FINISH) eqn:E; [apply N.eqb_eq in E; contradiction|].
  cbn [negb orb]. rewrite orb_true_r. reflexivity.
Qed.

Lemma deflate_nonfinish_after_finish c input out_len flush :
  out_len <> 0 -> c_prev c <> TDone -> c_flush c = TF_FINISH -> flush <= 3 ->
  deflate c input out_len flush
  = Ret (DRet D_MZ_ERR_PARAM 0 [] (set_prev (set_flush c flush) TBadParam)).
Proof.
  intros Ho Hp Hf Hfl. unfold deflate.
  destruct (out_len =? 0) eqn:E; [apply N.eqb_eq in E; contradiction|].
  destruct (c_prev c) eqn:Ep; try congruence.
  all: rewrite (iter_pow_inr (deflate_turn flush) 1 40 _
                 (Ret (DRet D_MZ_ERR_PARAM 0 [] (set_prev (set_flush c flush) TBadParam))));
       [reflexivity| |apply pow2_ge1].
  all: cbn [steps]; unfold deflate_turn; cbn [ds_c ds_in ds_room ds_tin ds_rout].
  all: unfold compress, tdflush_of_mz.
  all: replace (flush <=? 4) with true by (symmetry; apply N.leb_le; lia).
  all: rewrite compress_nonfinish_after_finish by (try assumption; unfold TF_FINISH; lia).
  all: cbn. all: reflexivity.
Qed.
