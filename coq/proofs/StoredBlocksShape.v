(* C10 at level 0, the token-level clause: everything a schedule of compress() calls emits at level 0 parses, under the
   RFC 1951 / RFC 1950 specification, into STORED blocks only - each carrying at most 65535 bytes, exactly one of them
   final and that one the last - whose payloads concatenate to the input consumed.  (level0_every_schedule with the
   block list it constructs kept in the statement.) *)
From Coq Require Import NArith ZArith List Bool Lia Arith.
From MZ.lib Require Import Arr Bits Mach.
From MZ.spec Require Import Adler DeflateSpec Zlib.
From MZ.model Require Import DeflateCore.
From MZ.proofs Require Import DeflateCounts StoredSpec StoredModel StoredRoundtrip StoredStream StoredSchedules.
Import ListNotations.
Local Open Scope N_scope.

Theorem level0_every_schedule_blocks (data : list N) (flags wb : N) sched out n :
  hasf flags FLAG_RAW = true -> wb <= 15 -> bytes_ok data ->
  Forall (fun it => legal_flush (snd it)) sched ->
  drive (comp_new flags wb) data sched [] 0 = Ret (Some (out, n)) ->
  exists chunks last,
    Forall (fun ch => N.of_nat (length ch) <= 65535) chunks /\ N.of_nat (length last) <= 65535 /\
    concat chunks ++ last = firstn (N.to_nat n) data /\
    (if hasf flags FLAG_ZLIB then zlib_spec true out else inflate_spec out)
    = SDone (firstn (N.to_nat n) data) (N.of_nat (length out)) (map (sblk false) chunks ++ [sblk true last]).
Proof.
  intros Hraw Hwb Hbytes Hleg Hd.
  apply (drive_finished data flags wb Hraw Hwb sched _ _ _ _ _ _ Hleg (GI2_init data flags wb)) in Hd;
    [|intros _; reflexivity].
  destruct Hd as (Hn & chunks & last & Hsm & Hl & Hcat & Hout).
  assert (Hbp : bytes_ok (concat chunks ++ last)) by (rewrite Hcat; apply bytes_ok_firstn, Hbytes).
  apply bytes_ok_app in Hbp. destruct Hbp as [Hb1 Hb2].
  pose proof (chunks_ok_of chunks Hsm Hb1) as Hc.
  assert (Hl2 : N.of_nat (length last) <= 65535) by (unfold BS in Hl; lia).
  exists chunks, last.
  split; [eapply Forall_impl; [|exact Hsm]; intros ch Hch; unfold BS in Hch; cbv beta in Hch; lia|].
  split; [exact Hl2|]. split; [exact Hcat|].
  subst out. unfold FIN.
  replace (concat (map (stored_block false) chunks) ++ stored_block true last ++
           (if hasf flags FLAG_ZLIB then be32 (adler32 1 (firstn (N.to_nat n) data)) else []))
    with (stored_stream chunks last ++ (if hasf flags FLAG_ZLIB then be32 (adler32 1 (firstn (N.to_nat n) data)) else []))
    by (rewrite stored_stream_concat, <- app_assoc; reflexivity).
  destruct (hasf flags FLAG_ZLIB) eqn:Z.
  - destruct (hdr_ok_wb flags wb Hwb Z) as (cmf & flg & Eh & Hok). rewrite Eh. cbn [app].
    pose proof (zlib_stored_stream cmf flg chunks last Hok Hc Hb2 Hl2) as Hz. cbv zeta in Hz.
    rewrite Hcat in Hz. rewrite Hz. f_equal.
    assert (Hb : forall a, length (be32 a) = 4%nat) by reflexivity.
    cbn [length]. rewrite app_length, Hb. lia.
  - rewrite (hdr_nonzlib flags wb Z), app_nil_r. cbn [app].
    pose proof (inflate_stored_stream chunks last [] Hc Hb2 Hl2) as Hi. rewrite app_nil_r, Hcat in Hi.
    exact Hi.
Qed.
