(* C19 on streams of stored blocks: a decoder that stands at a block boundary (state ReadBlockHeader between
   two calls) can be replaced by one rebuilt only from the documented boundary record - the record exists,
   and the rebuilt decoder satisfies the same call-to-call invariant, so that every continuation (any slices,
   any buffers, positions and budgets) decodes the rest of the stream exactly as the schedule theorems say. *)
From Coq Require Import NArith ZArith List Bool Lia Arith.
From MZ.lib Require Import Arr Bits Mach.
From MZ.spec Require Import Adler DeflateSpec Zlib.
From MZ.model Require Import InflateCore Boundary.
From MZ.proofs Require Import IterPow StoredSpec InflateStoredZ InflateStoredChunks InflateStoredTotal InflateStoredGen.
From MZ.proofs Require InflateBasic.
Import ListNotations.
Local Open Scope N_scope.

Lemma rebuilt_invariant flags zl cmf flg A B extra d rem D :
  DI flags zl cmf flg A B extra d rem D -> d_state d = ReadBlockHeader ->
  exists b, block_boundary_state d = Ret (Some b) /\
            DI flags zl cmf flg A B extra (from_block_boundary_state b) rem D.
Proof.
  intros ((Hck & Hza & HS) & HK) Est. unfold block_boundary_state. rewrite Est.
  rewrite Est in HS. unfold ShR in HS. destruct HS as (Hn & Hb & HS).
  unfold guard. rewrite Hn. change (0 <? 8) with true. cbn [bind].
  eexists. split; [reflexivity|].
  unfold DI, CoreD, Kof, from_block_boundary_state.
  cbn [d_state d_num_bits d_bit_buf d_counter d_check d_zadler bs_num_bits bs_bit_buf bs_zh0 bs_zh1 bs_check].
  rewrite Hb. change (0 mod 256) with 0.
  split.
  - split; [intros _; reflexivity|]. split; [intros; reflexivity|].
    unfold ShR. split; [reflexivity|]. split; [reflexivity|exact HS].
  - unfold Kof in HK. rewrite Est in HK. exact HK.
Qed.

(* ... and therefore: whatever schedule continues from the rebuilt decoder *)
Theorem rebuilt_decoder_continues flags zl cmf flg A B extra d D sched later :
  has flags F_ZLIB = zl -> has flags F_STOPBB = false -> has flags F_MORE = true ->
  cmf < 256 -> flg < 256 -> valid_header (Z.of_N cmf) (Z.of_N flg) = true -> A < 2 ^ 32 -> shapeB B ->
  let offered := concat (map (fun it : list N * arr * N * N => fst (fst (fst it))) sched) in
  DI flags zl cmf flg A B extra d (offered ++ later) D -> d_state d = ReadBlockHeader ->
  Forall (item_ok flags zl cmf flg) sched -> N.of_nat (length offered) < 2 ^ 57 -> offered ++ later <> [] ->
  exists b s total acc,
    block_boundary_state d = Ret (Some b) /\
    feed3 flags (from_block_boundary_state b) [] sched 0 NeedsMoreInput D = Ret (s, total, acc) /\
    acc = firstn (length acc) (InflateStoredChunks.P B) /\
    (s = HasMoreOutput \/ (s = NeedsMoreInput /\ later <> []) \/
     (s = final_status flags zl A B /\ acc = InflateStoredChunks.P B)).
Proof.
  intros HZ HSB HMORE Hcmf Hflg Hvalid HA HB offered HD Est Hok Hshort Hne.
  destruct (rebuilt_invariant _ _ _ _ _ _ _ _ _ _ HD Est) as (b & Hb & HD').
  destruct (feed3_total flags zl HZ HSB cmf flg A Hcmf Hflg Hvalid HA B HB extra HMORE sched (from_block_boundary_state b) [] 0
              NeedsMoreInput later D HD' Hok Hshort (or_intror (conj eq_refl Hne))) as (s & total & acc & Hf & H1 & _ & H3).
  exists b, s, total, acc. split; [exact Hb|]. split; [exact Hf|]. split; [exact H1|].
  destruct H3 as [H3|[H3|(H3 & H4 & _)]]; [left; exact H3|right; left; exact H3|right; right; split; assumption].
Qed.
