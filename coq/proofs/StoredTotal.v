(* Level 0 never panics: the equational ("it returns this value") versions of the bit-writer and block-flush
   lemmas of StoredModel.v, and on top of them: the stored engine, compress() and compress_to_vec_inner of the
   compressor model never yield a Panic value (a debug-profile overflow, bounds or assertion site, or the
   explicit panic!("Bug! ...") of compress_to_vec) for any input - the only way not to return the proved
   result is the model's own fuel (2^40 turns per loop). *)
From Coq Require Import NArith ZArith List Bool Lia Arith.
From MZ.lib Require Import Arr Bits Mach.
From MZ.spec Require Import Adler DeflateSpec.
From MZ.gen Require GenZlib.
From MZ.model Require Import DeflateCore.
From MZ.proofs Require Import IterPow StoredSpec StoredModel.
From MZ.proofs Require ZlibHeader.
Import ListNotations.
Local Open Scope N_scope.
Arguments N.add : simpl never.
Arguments N.sub : simpl never.
Arguments N.mul : simpl never.
Arguments N.min : simpl never.
Arguments N.ltb : simpl never.
Arguments N.leb : simpl never.
Arguments N.eqb : simpl never.

(* ------------------------------------------------------------------ the bit writer, as equations *)
Lemma put8_eq o v : aligned o -> v < 256 -> ob_n o < OUT_CAP -> put_bits o v 8 = Ret (push o [v]).
Proof.
  destruct o as [r n bb bi]. unfold aligned. cbn [ob_bb ob_bits ob_n]. intros [-> ->] Hv Hn.
  rewrite put_from_aligned by (change (2 ^ 8) with 256; lia).
  rewrite ofb_step. cbn [ob_rev ob_n ob_bb ob_bits]. change (8 <=? 8) with true. cbv iota.
  unfold guard. replace (n <? OUT_CAP) with true by (symmetry; apply N.ltb_lt; exact Hn). cbn [bind].
  rewrite ofb_done by (cbn [ob_bits]; lia).
  rewrite shiftr8_small, N.mod_small by assumption. reflexivity.
Qed.

Lemma put16_eq o v : aligned o -> v < 65536 -> ob_n o + 1 < OUT_CAP -> put_bits o v 16 = Ret (push o (le16 v)).
Proof.
  destruct o as [r n bb bi]. unfold aligned. cbn [ob_bb ob_bits ob_n]. intros [-> ->] Hv Hn.
  rewrite put_from_aligned by (change (2 ^ 16) with 65536; lia).
  rewrite ofb_step. cbn [ob_rev ob_n ob_bb ob_bits]. change (8 <=? 16) with true. cbv iota.
  unfold guard. replace (n <? OUT_CAP) with true by (symmetry; apply N.ltb_lt; lia). cbn [bind].
  rewrite ofb_step. cbn [ob_rev ob_n ob_bb ob_bits]. change (8 <=? 16 - 8) with true. cbv iota.
  replace (n + 1 <? OUT_CAP) with true by (symmetry; apply N.ltb_lt; lia). cbn [bind].
  rewrite ofb_done by (cbn [ob_bits]; lia).
  rewrite !N.shiftr_div_pow2. change (2 ^ 8) with 256.
  rewrite N.div_div by lia. change (256 * 256) with 65536.
  rewrite (N.div_small v 65536) by exact Hv.
  unfold push, le16. cbn [rev app length ob_rev ob_n bind guard].
  change (N.of_nat 2) with 2. change (16 - 8 - 8) with 0. f_equal. f_equal. lia.
Qed.

Lemma put_hdr_eq o h0 h1 :
  aligned o -> h0 < 256 -> h1 < 256 -> ob_n o + 1 < OUT_CAP ->
  put_bits (put_bits_no_flush o h0 8) h1 8 = Ret (push o [h0; h1]).
Proof.
  destruct o as [r n bb bi]. unfold aligned. cbn [ob_bb ob_bits ob_n]. intros [-> ->] H0 H1 Hn.
  unfold put_bits, put_bits_no_flush, guard. cbn [ob_rev ob_n ob_bb ob_bits].
  change (8 <? 32) with true. cbn [bind].
  replace (h1 <=? N.ones 8) with true by (symmetry; apply N.leb_le; change (N.ones 8) with 255; lia). cbn [bind].
  rewrite N.shiftl_0_r, N.lor_0_l, N.add_0_l, (N.mod_small h0 U32) by (unfold U32; lia).
  assert (Hlt : N.lor h0 (N.shiftl h1 8) < U32).
  { assert (N.lor h0 (N.shiftl h1 8) < 2 ^ 16); [|unfold U32; change (2 ^ 16) with 65536 in *; lia].
    destruct (N.eq_dec (N.lor h0 (N.shiftl h1 8)) 0) as [E|E]; [rewrite E; reflexivity|].
    apply N.log2_lt_pow2; [lia|]. rewrite N.log2_lor.
    apply N.max_lub_lt.
    - destruct (N.eq_dec h0 0) as [->|]; [reflexivity|]. apply N.log2_lt_pow2; [lia|change (2 ^ 16) with 65536; lia].
    - destruct (N.eq_dec h1 0) as [->|]; [reflexivity|].
      rewrite N.log2_shiftl by assumption.
      assert (N.log2 h1 < 8) by (apply N.log2_lt_pow2; [lia|exact H1]). lia. }
  rewrite (N.mod_small _ U32) by exact Hlt.
  rewrite ofb_step. cbn [ob_rev ob_n ob_bb ob_bits]. change (8 <=? 8 + 8) with true. cbv iota.
  unfold guard. replace (n <? OUT_CAP) with true by (symmetry; apply N.ltb_lt; lia). cbn [bind].
  rewrite ofb_step. cbn [ob_rev ob_n ob_bb ob_bits]. change (8 <=? 8 + 8 - 8) with true. cbv iota.
  replace (n + 1 <? OUT_CAP) with true by (symmetry; apply N.ltb_lt; lia). cbn [bind].
  rewrite ofb_done by (cbn [ob_bits]; lia).
  rewrite lor_shift8_mod, lor_shift8_shr, (N.mod_small h1 256), shiftr8_small by assumption.
  unfold push. cbn [rev app length ob_rev ob_n bind guard].
  change (N.of_nat 2) with 2. change (8 + 8 - 8 - 8) with 0. f_equal. f_equal. lia.
Qed.

Lemma put_block_header_eq {T} o f (K : obuf -> res T) :
  aligned o -> f <= 1 -> ob_n o < OUT_CAP ->
  (o1 <- put_bits o f 1 ;; o2 <- put_bits o1 0 2 ;; o3 <- ob_pad_to_bytes o2 ;; K o3) = K (push o [f]).
Proof.
  destruct o as [r n bb bi]. unfold aligned. cbn [ob_bb ob_bits ob_n]. intros [-> ->] Hf Hn.
  rewrite put_from_aligned by (change (2 ^ 1) with 2; lia).
  rewrite ofb_done by (cbn [ob_bits]; lia). cbn [bind].
  unfold put_bits at 1, put_bits_no_flush, guard. cbn [ob_rev ob_n ob_bb ob_bits bind].
  change (2 <? 32) with true. change (0 <=? N.ones 2) with true. cbn [bind].
  rewrite N.shiftl_0_l, N.lor_0_r, (N.mod_small f U32) by (unfold U32; lia).
  rewrite ofb_done by (cbn [ob_bits]; lia). cbn [bind].
  unfold ob_pad_to_bytes, csub, put_bits, put_bits_no_flush, guard. cbn [ob_rev ob_n ob_bb ob_bits bind].
  change (negb (1 + 2 =? 0)) with true. cbv iota. change (1 + 2 <=? 8) with true. cbn [bind]. change (8 - (1 + 2)) with 5.
  change (5 <? 32) with true. cbn [bind]. change (0 <=? N.ones 5) with true. cbn [bind].
  rewrite ?N.shiftl_0_l, ?N.lor_0_r, ?(N.mod_small f U32) by (unfold U32; lia).
  change (1 + 2 + 5) with 8.
  rewrite ofb_step. cbn [ob_rev ob_n ob_bb ob_bits]. change (8 <=? 8) with true. cbv iota.
  unfold guard. replace (n <? OUT_CAP) with true by (symmetry; apply N.ltb_lt; exact Hn). cbn [bind].
  rewrite ofb_done by (cbn [ob_bits]; lia). cbn [bind].
  rewrite shiftr8_small, N.mod_small by lia. reflexivity.
Qed.

Lemma pad_eq o : aligned o -> ob_pad_to_bytes o = Ret o.
Proof. intros [_ Hb]. unfold ob_pad_to_bytes. rewrite Hb. reflexivity. Qed.

Lemma write_bytes_eq o l : aligned o -> ob_n o + N.of_nat (length l) <= OUT_CAP -> write_bytes o l = Ret (push o l).
Proof.
  destruct o as [r n bb bi]. unfold aligned. cbn [ob_bb ob_bits ob_n]. intros [-> ->] Hn.
  unfold write_bytes, guard. cbn [ob_bits ob_n ob_rev ob_bb]. change (0 =? 0) with true. cbn [bind].
  replace (n + N.of_nat (length l) <=? OUT_CAP) with true by (symmetry; apply N.leb_le; exact Hn). cbn [bind].
  unfold push. cbn [ob_rev ob_n]. rewrite rev_append_rev. reflexivity.
Qed.

Lemma ob_n_push o l : ob_n (push o l) = ob_n o + N.of_nat (length l).
Proof. reflexivity. Qed.

(* ------------------------------------------------------------------ flush_block, as an equation *)
Lemma flush_block_eq c cb flush :
  hasf (c_flags c) FLAG_RAW = true -> c_sbuf c = 0 -> c_sbits c = 0 -> c_wbits c <= 15 ->
  flush = TF_NONE \/ flush = TF_FINISH ->
  (0 <? c_total_bytes c) || (flush =? TF_FINISH) = true ->
  c_total_bytes c < 32768 -> c_adler c < 2 ^ 32 ->
  c_pending c = [] -> c_la_pos c = c_cbdp c + c_total_bytes c -> c_total_bytes c <= c_dsize c ->
  flush_block c cb flush
  = Ret (let '(n, c2, cb2) := flush_output (after_block c) cb (block_bytes c flush) in FbOk n c2 cb2).
Proof.
  intros Hraw Hsb Hsn Hwb Hfl Hblk Htb Had Hpe Hlp Hdz.
  unfold flush_block. rewrite Hsb, Hsn, Hraw, Hblk.
  set (o0 := {| ob_rev := []; ob_n := 0; ob_bb := 0; ob_bits := 0 |}).
  assert (A0 : aligned o0) by (split; reflexivity).
  set (hb := if hasf (c_flags c) FLAG_ZLIB && (c_block_index c =? 0) then hdr (c_flags c) (c_wbits c) else []).
  assert (Hhl : N.of_nat (length hb) <= 2).
  { unfold hb, hdr. destruct (hasf (c_flags c) FLAG_ZLIB); cbn [andb]; [|cbn; lia].
    destruct (c_block_index c =? 0); [|cbn; lia].
    destruct (GenZlib.header_from_flags (Z.of_N (c_flags c)) (Z.of_N (c_wbits c))) as [[h0 h1] okf]. cbn. lia. }
  assert (Hh : (if hasf (c_flags c) FLAG_ZLIB && (c_block_index c =? 0)
     then let '(h0, h1, _) := GenZlib.header_from_flags (Z.of_N (c_flags c)) (Z.of_N (c_wbits c)) in
          put_bits (put_bits_no_flush o0 (Z.to_N h0) 8) (Z.to_N h1) 8
     else Ret o0) = Ret (push o0 hb)).
  { unfold hb, hdr. destruct (hasf (c_flags c) FLAG_ZLIB); cbn [andb].
    - destruct (c_block_index c =? 0).
      + pose proof (ZlibHeader.header_from_flags_valid (Z.of_N (c_flags c)) (Z.of_N (c_wbits c)) ltac:(lia)) as Hv.
        destruct (GenZlib.header_from_flags (Z.of_N (c_flags c)) (Z.of_N (c_wbits c))) as [[h0 h1] okf].
        destruct Hv as (_ & _ & _ & _ & _ & _ & Hc & Hf & _).
        apply put_hdr_eq; [exact A0|lia|lia|cbn [ob_n o0]; unfold OUT_CAP; lia].
      + rewrite push_nil by exact A0. reflexivity.
    - rewrite push_nil by exact A0. reflexivity. }
  rewrite Hh. cbn [bind]. clear Hh.
  set (o1 := push o0 hb).
  assert (A1 : aligned o1) by apply aligned_push.
  assert (N1 : ob_n o1 <= 2) by (unfold o1; rewrite ob_n_push; cbn [ob_n o0]; lia).
  unfold csub. replace (c_cbdp c <=? c_la_pos c) with true by (symmetry; apply N.leb_le; lia). cbn [bind].
  replace (c_la_pos c - c_cbdp c <=? c_dsize c) with true by (symmetry; apply N.leb_le; lia).
  unfold guard. cbn [andb Bool.eqb bind]. rewrite Hpe. cbn [bind negb].
  rewrite (put_block_header_eq o1 (if flush =? TF_FINISH then 1 else 0))
    by (try exact A1; try (destruct (flush =? TF_FINISH); lia); unfold OUT_CAP; lia).
  set (o2 := push o1 [if flush =? TF_FINISH then 1 else 0]).
  assert (N2 : ob_n o2 <= 3) by (unfold o2; rewrite ob_n_push; cbn [length]; lia).
  assert (Htb16 : c_total_bytes c < 65536) by lia.
  change 65535 with (N.ones 16) at 1. rewrite N.land_ones, N.mod_small by (change (2 ^ 16) with 65536; lia).
  rewrite lnot16 by exact Htb16.
  rewrite (put16_eq o2) by (try apply aligned_push; try lia; unfold OUT_CAP; lia). cbn [bind].
  set (o3 := push o2 (le16 (c_total_bytes c))).
  assert (N3 : ob_n o3 <= 5) by (unfold o3; rewrite ob_n_push; change (length (le16 (c_total_bytes c))) with 2%nat; lia).
  rewrite (put16_eq o3) by (try apply aligned_push; try lia; unfold OUT_CAP; lia). cbn [bind].
  set (o4 := push o3 (le16 (65535 - c_total_bytes c))).
  assert (N4 : ob_n o4 <= 7) by (unfold o4; rewrite ob_n_push; change (length (le16 (65535 - c_total_bytes c))) with 2%nat; lia).
  set (chunk := dict_range (c_dict c) (N.land (c_cbdp c) DMASK) (c_total_bytes c)).
  assert (Hlen : N.of_nat (length chunk) = c_total_bytes c).
  { unfold chunk. rewrite length_dict_range; [lia| |exact Htb]. rewrite land_dmask. apply N.mod_lt. lia. }
  rewrite (write_bytes_eq o4) by (try apply aligned_push; rewrite Hlen; unfold OUT_CAP; lia). cbn [bind].
  set (o5 := push o4 chunk).
  assert (N5 : ob_n o5 <= 7 + 32768) by (unfold o5; rewrite ob_n_push, Hlen; lia).
  assert (Ho5 : o5 = push o0 (hb ++ stored_block (flush =? TF_FINISH) chunk)).
  { unfold o5, o4, o3, o2, o1. rewrite !push_push. f_equal. f_equal. unfold stored_block. rewrite Hlen.
    cbn [app]. destruct (flush =? TF_FINISH); reflexivity. }
  (* trailer *)
  fold chunk. fold o5.
  assert (Hfinal : forall bytes flush0, bytes = block_bytes c flush0 ->
     (let '(n, c2, cb2) :=
        flush_output (mkc (c_flags c) (c_wbits c) (c_block_index c + 1) (c_flush c) [] (c_finished c)
                          (c_adler c) (c_prev c) (ob_bb (push o0 bytes)) (ob_bits (push o0 bytes)) (c_saved_match_len c) (c_dict c)
                          (c_cbdp c + c_total_bytes c) (c_la_size c) (c_la_pos c) (c_dsize c) 0) cb
                     (rev_append (ob_rev (push o0 bytes)) []) in Ret (FbOk n c2 cb2))
     = Ret (let '(n, c2, cb2) := flush_output (after_block c) cb (block_bytes c flush0) in FbOk n c2 cb2)).
  { intros bytes flush0 ->. cbn [push ob_bb ob_bits ob_rev o0].
    rewrite app_nil_r, rev_append_rev, app_nil_r, rev_involutive.
    unfold after_block. rewrite Hpe.
    destruct (flush_output _ cb (block_bytes c flush0)) as [[n c2] cb2]. reflexivity. }
  destruct Hfl as [-> | ->].
  - change (TF_NONE =? TF_FINISH) with false in *.
    change (TF_NONE =? TF_PARTIAL) with false. change (TF_NONE =? TF_PARTIAL_OPT) with false.
    change ((TF_NONE =? TF_SYNC) || (TF_NONE =? TF_FULL)) with false.
    change (TF_NONE =? TF_SYNC_OPT) with false. cbv iota. cbn [bind].
    rewrite Ho5. apply Hfinal. unfold block_bytes. fold hb. fold chunk.
    change (TF_NONE =? TF_FINISH) with false. cbn [andb]. rewrite app_nil_r. reflexivity.
  - change (TF_FINISH =? TF_FINISH) with true in *. cbv iota.
    rewrite (pad_eq o5) by (unfold o5; apply aligned_push). cbn [bind].
    destruct (hasf (c_flags c) FLAG_ZLIB) eqn:Z.
    + cbv zeta.
      rewrite (put8_eq o5) by (try (unfold o5; apply aligned_push); try (apply N.mod_lt; lia); unfold OUT_CAP; lia). cbn [bind].
      rewrite (put8_eq (push o5 _)) by (try apply aligned_push; try (apply N.mod_lt; lia); rewrite ob_n_push; cbn [length]; unfold OUT_CAP; lia). cbn [bind].
      rewrite (put8_eq (push (push o5 _) _)) by (try apply aligned_push; try (apply N.mod_lt; lia); rewrite !ob_n_push; cbn [length]; unfold OUT_CAP; lia). cbn [bind].
      rewrite (put8_eq (push (push (push o5 _) _) _)) by (try apply aligned_push; try (apply N.mod_lt; lia); rewrite !ob_n_push; cbn [length]; unfold OUT_CAP; lia).
      cbn [bind]. rewrite Ho5, !push_push. apply Hfinal. unfold block_bytes. fold hb. fold chunk. rewrite Z.
      change (TF_FINISH =? TF_FINISH) with true. cbn [andb]. rewrite <- !app_assoc. reflexivity.
    + cbn [bind]. rewrite Ho5. apply Hfinal. unfold block_bytes. fold hb. fold chunk. rewrite Z.
      change (TF_FINISH =? TF_FINISH) with true. cbn [andb]. rewrite app_nil_r. reflexivity.
Qed.

(* ------------------------------------------------------------------ no panic *)
Definition NP {T} (r : res T) : Prop := match r with Panic _ => False | _ => True end.

Lemma flush_output_fields c cb bytes n c' cb' :
  flush_output c cb bytes = (n, c', cb') ->
  c_total_bytes c' = c_total_bytes c /\ c_dsize c' = c_dsize c.
Proof.
  unfold flush_output. destruct (N.of_nat (length bytes) =? 0); [intros H; inversion H; subst; split; reflexivity|].
  destruct cb as [len w ofs|acc w calls].
  - destruct (ntake bytes (len - ofs)) as [[now later] k]. destruct later; intros H; inversion H; subst; split; reflexivity.
  - destruct (match acc with Some 0 => false | _ => true end); intros H; inversion H; subst; split; reflexivity.
Qed.

Section Run.
Variables (data : list N) (flags wb : N).
Hypothesis Hraw : hasf flags FLAG_RAW = true.
Hypothesis Hwb : wb <= 15.

Notation SI' := (SI data flags wb).
Notation BI' := (BI data flags wb).

Definition Dzs (s : sstate) : Prop := s_bw s <= c_dsize (s_c s).
Definition Dz (c : comp) : Prop := c_total_bytes c <= c_dsize c.

Definition SQnp (r : res stres) : Prop :=
  match r with
  | Panic _ => False
  | Ret (SRet ok c cb src) => Dz c
  | Ret SUnmodelled => False
  | OutOfFuel => True
  end.

Lemma stored_turn_np R A C0 s :
  A < 2 ^ 32 -> SI' R A C0 s -> Dzs s ->
  match stored_turn s with
  | inl s' => Dzs s'
  | inr r => SQnp r
  end.
Proof.
  intros HA HSI HDz.
  destruct HSI as (Hfix & Hfl & Hpe & Hin & Hil & Hsum & Hsrc & Hlp & Hcb & Hbw & Hls & Hd & Hcbuf & Hout).
  destruct Hfix as (F1 & F2 & F3 & F4 & F5 & F6).
  unfold stored_turn. cbv zeta. rewrite Hfl.
  change (TF_FINISH =? TF_NONE) with false. cbn [negb andb].
  destruct ((0 <? s_inleft s) || negb (s_ls s =? 0)) eqn:Econd.
  2:{ unfold SQnp, Dz. cbn [set_la mkc c_total_bytes c_dsize]. exact HDz. }
  unfold csub, C_MAX_MATCH. replace (s_ls s <=? 258) with true by (symmetry; apply N.leb_le; lia).
  set (n := N.min (s_inleft s) (258 - s_ls s)).
  assert (Hn2 : s_ls s + n <= 258) by (unfold n; lia).
  assert (Hpos : 1 <= s_ls s + n).
  { apply orb_true_iff in Econd. destruct Econd as [E|E].
    - apply N.ltb_lt in E. unfold n. lia.
    - apply negb_true_iff, N.eqb_neq in E. lia. }
  replace (1 <=? s_ls s + n) with true by (symmetry; apply N.leb_le; exact Hpos).
  unfold Dzs in HDz.
  destruct (31744 <? s_bw s + 1) eqn:Ebw.
  - apply N.ltb_lt in Ebw. assert (Hbw1 : s_bw s + 1 = BS) by (unfold BS in *; lia).
    match goal with |- context [flush_block ?cc _ _] => set (c1 := cc) end.
    rewrite (flush_block_eq c1 (s_cb s) TF_NONE).
    + destruct (flush_output (after_block c1) (s_cb s) (block_bytes c1 TF_NONE)) as [[nn c2] cb2] eqn:Efo.
      apply flush_output_fields in Efo. destruct Efo as [Et Ed].
      unfold after_block in Et, Ed. cbn [mkc c_total_bytes c_dsize] in Et, Ed.
      destruct (negb (nn =? 0)%Z).
      * unfold SQnp, Dz. rewrite Et. lia.
      * unfold Dzs. cbn [s_bw s_c]. rewrite Et. lia.
    + unfold c1. cbn [set_la mkc c_flags]. rewrite F1. exact Hraw.
    + unfold c1. cbn [set_la mkc c_sbuf]. exact F3.
    + unfold c1. cbn [set_la mkc c_sbits]. exact F4.
    + unfold c1. cbn [set_la mkc c_wbits]. rewrite F2. exact Hwb.
    + left. reflexivity.
    + unfold c1. cbn [set_la mkc c_total_bytes]. rewrite Hbw1. reflexivity.
    + unfold c1. cbn [set_la mkc c_total_bytes]. unfold BS in *. lia.
    + unfold c1. cbn [set_la mkc c_adler]. rewrite F6. exact HA.
    + unfold c1. cbn [set_la mkc c_pending]. exact Hpe.
    + unfold c1. cbn [set_la mkc c_la_pos c_cbdp c_total_bytes]. lia.
    + unfold c1. cbn [set_la mkc c_total_bytes c_dsize]. unfold C_DICT_SIZE, BS in *. lia.
  - apply N.ltb_ge in Ebw. unfold Dzs. cbn [s_bw s_c set_la mkc c_dsize]. unfold C_DICT_SIZE. lia.
Qed.

Lemma compress_stored_np R A c cb input :
  A < 2 ^ 32 -> BI' R A c cb -> c_flush c = TF_FINISH -> c_pending c = [] -> Dz c ->
  input = skipn (N.to_nat (c_la_pos c + c_la_size c)) data ->
  SQnp (compress_stored c cb input).
Proof.
  intros HA HBI Hfl Hpe HDz Hin. unfold compress_stored.
  set (s0 := {| s_c := c; s_cb := cb; s_in := input; s_inleft := N.of_nat (length input); s_src := 0;
               s_bw := c_total_bytes c; s_ls := c_la_size c; s_lp := c_la_pos c |}).
  set (C0 := c_la_pos c + c_la_size c).
  assert (H0 : SI' R A C0 s0 /\ Dzs s0).
  { split; [|exact HDz].
    destruct HBI as (Hfix & Hle & Hlp & Hcb & Htb & Hls & Hd & Hcbuf & Hout).
    unfold SI, s0. cbn [s_c s_cb s_in s_inleft s_src s_bw s_ls s_lp].
    rewrite Hpe, app_nil_r in Hout. destruct Hfix as (F1 & F2 & F3 & F4 & F5 & F6). unfold cfix.
    repeat split; try assumption; try (unfold C0; lia).
    subst input. rewrite skipn_length. unfold total in *. lia. }
  pose proof (iter_pow_inv stored_turn (fun s => SI' R A C0 s /\ Dzs s) SQnp) as H.
  assert (H1 : forall s s', SI' R A C0 s /\ Dzs s -> stored_turn s = inl s' -> SI' R A C0 s' /\ Dzs s').
  { intros s s' [Hs Hz] Ht. split; [exact (stored_turn_SI_inl data flags wb Hraw Hwb R A C0 s s' HA Hs Ht)|].
    pose proof (stored_turn_np R A C0 s HA Hs Hz) as X. rewrite Ht in X. exact X. }
  assert (H2 : forall s r, SI' R A C0 s /\ Dzs s -> stored_turn s = inr r -> SQnp r).
  { intros s r [Hs Hz] Ht. pose proof (stored_turn_np R A C0 s HA Hs Hz) as X. rewrite Ht in X. exact X. }
  specialize (H H1 H2 40%nat s0 H0).
  destruct (iter_pow 40 stored_turn s0) as [s'|rr]; [exact I|exact H].
Qed.

Lemma fob_np c len w ofs st c' cb' :
  flush_output_buffer c (CBuf len w ofs) = (st, c', cb') ->
  (st = TOkay \/ st = TDone) /\ c_total_bytes c' = c_total_bytes c /\ c_dsize c' = c_dsize c.
Proof.
  intros H. apply fob_vout in H. destruct H as (_ & _ & Ec & Est). rewrite Ec.
  split; [rewrite Est; destruct (c_finished c && _); auto|]. split; reflexivity.
Qed.

Lemma flush_output_nonneg c len w ofs bytes n c' cb' :
  flush_output c (CBuf len w ofs) bytes = (n, c', cb') -> (0 <= n)%Z.
Proof.
  unfold flush_output. destruct (N.of_nat (length bytes) =? 0); [intros H; inversion H; subst; lia|].
  destruct (ntake bytes (len - ofs)) as [[now later] k]. intros H; inversion H; subst. lia.
Qed.

Lemma adler_lt A : adler_valid A -> A < 2 ^ 32.
Proof.
  unfold adler_valid, ADLER_MOD. intros [H1 H2]. change (2 ^ 32) with 4294967296.
  pose proof (N.div_mod A 65536 ltac:(lia)). lia.
Qed.

Notation GI' := (GI data flags wb).

(* what a Finish call of compress() can return *)
Definition CRnp (input : list N) (r : res cres) : Prop :=
  match r with
  | Panic _ => False
  | Ret CUnmodelled => False
  | Ret (CRet r) => (r_status r = TOkay \/ r_status r = TDone) /\ r_in r <= N.of_nat (length input) /\ Dz (r_comp r)
  | OutOfFuel => True
  end.

Lemma compress_np R c input out_len :
  GI' R c -> Dz c ->
  (c_finished c = false -> input = skipn (N.to_nat (c_la_pos c + c_la_size c)) data) ->
  CRnp input (compress c input out_len TF_FINISH).
Proof.
  intros HGI HDz Hin. pose proof HGI as [Hprev HG].
  unfold compress, compress_inner. rewrite Hprev.
  change (TF_FINISH =? TF_FINISH) with true. rewrite orb_true_r. cbn [negb orb].
  set (c0 := set_flush c TF_FINISH).
  set (cb0 := CBuf out_len [] 0).
  assert (Hdrain : forall st c' cb', flush_output_buffer c0 cb0 = (st, c', cb') ->
            CRnp input (Ret (CRet {| r_status := st; r_in := 0; r_out := cb_written cb'; r_comp := set_prev c' st; r_cb := cb' |}))).
  { intros st c' cb' Hf. apply fob_np in Hf. destruct Hf as (Hst & Ht & Hd).
    unfold CRnp. cbn [r_status r_in r_comp]. split; [exact Hst|]. split; [lia|].
    unfold Dz in *. cbn [set_prev mkc c_total_bytes c_dsize]. rewrite Ht, Hd. exact HDz. }
  change (c_pending c0) with (c_pending c). change (c_finished c0) with (c_finished c).
  change (c_flags c0) with (c_flags c).
  destruct HG as [(A & HBI & HAv & Had)|[Hfin Hfull]].
  2:{ rewrite Hfin, orb_true_r.
      destruct (flush_output_buffer c0 cb0) as [[st c'] cb'] eqn:Ef. apply Hdrain. reflexivity. }
  pose proof (adler_lt A HAv) as HA.
  pose proof HBI as (Hfix & Hle & Hlp & Hcb & Htb & Hls & Hd & Hcbuf & Hout).
  destruct Hfix as (F1 & F2 & F3 & F4 & F5 & F6).
  rewrite F5, orb_false_r.
  destruct (c_pending c) as [|p ps] eqn:Hpe; cbn [negb].
  2:{ destruct (flush_output_buffer c0 cb0) as [[st c'] cb'] eqn:Ef. apply Hdrain. reflexivity. }
  clear Hdrain.
  rewrite F1, Hraw. cbn [negb].
  assert (HBI0 : BI' R A c0 cb0).
  { unfold BI, cfix, c0, cb0.
    cbn [set_flush mkc c_flags c_wbits c_sbuf c_sbits c_finished c_adler c_la_pos c_la_size
         c_cbdp c_total_bytes c_block_index c_dict c_pending cb_written rev_append app].
    try rewrite Hpe. cbn [cb_written rev_append app] in Hout. try rewrite Hpe in Hout.
    repeat split; try assumption; eauto. }
  specialize (Hin F5).
  pose proof (compress_stored_post data flags wb Hraw Hwb R A c0 cb0 input HA HBI0 eq_refl Hpe Hin _ eq_refl) as HS.
  pose proof (compress_stored_np R A c0 cb0 input HA HBI0 eq_refl Hpe HDz Hin) as HSn.
  change (c_la_pos c0 + c_la_size c0) with (c_la_pos c + c_la_size c) in HS.
  destruct (compress_stored c0 cb0 input) as [sr| |]; cbn [bind]; try exact I; try contradiction.
  destruct sr as [ok c1 cb1 src|]; [|contradiction].
  destruct HS as (Hok & HBI1 & Hfl1 & Hsrc & Hend). subst ok.
  unfold SQnp in HSn.
  pose proof HBI1 as (Hfix1 & Hle1 & Hlp1 & Hcb1 & Htb1 & Hls1 & Hd1 & Hcbuf1 & Hout1).
  destruct Hfix1 as (G1 & G2 & G3 & G4 & G5 & G6).
  assert (Hsrcle : src <= N.of_nat (length input)).
  { rewrite Hin, skipn_length. unfold total in *. lia. }
  set (A' := if hasf flags FLAG_ZLIB || hasf flags FLAG_ADLER then adler32 A (firstn (N.to_nat src) input) else A).
  assert (HAv' : adler_valid A').
  { unfold A'. destruct (_ || _); [|exact HAv]. apply adler32_valid. exact HAv. }
  set (c2 := if hasf (c_flags c1) FLAG_ZLIB || hasf (c_flags c1) FLAG_ADLER
             then set_adler c1 (adler32 (c_adler c1) (firstn (N.to_nat src) input)) else c1).
  assert (H2 : c_flags c2 = flags /\ c_wbits c2 = wb /\ c_sbuf c2 = 0 /\ c_sbits c2 = 0 /\ c_adler c2 = A' /\
               c_flush c2 = TF_FINISH /\ c_pending c2 = c_pending c1 /\ c_la_pos c2 = c_la_pos c1 /\
               c_la_size c2 = c_la_size c1 /\ c_cbdp c2 = c_cbdp c1 /\ c_total_bytes c2 = c_total_bytes c1 /\
               c_dsize c2 = c_dsize c1 /\ c_finished c2 = false).
  { unfold c2, A'. rewrite G1, G6. destruct (_ || _);
      cbn [set_adler mkc c_flags c_wbits c_sbuf c_sbits c_finished c_adler c_la_pos c_la_size c_flush c_prev
           c_cbdp c_total_bytes c_block_index c_dict c_pending c_dsize]; repeat split; assumption. }
  destruct H2 as (K1 & K2 & K3 & K4 & K6 & Hfl2 & Hpe2 & Hlp2 & Hls2 & Hcb2 & Htb2 & Hds2 & K5).
  clearbody c2.
  rewrite Hfl2, Hls2, Hpe2.
  change (TF_FINISH =? TF_NONE) with false. cbn [negb andb].
  destruct Hcbuf1 as (len1 & w1 & ofs1 & Ecb1).
  match goal with |- CRnp _ (bind (if ?b then _ else _) _) => destruct b eqn:Efin end.
  - apply andb_true_iff in Efin. destruct Efin as [E1 E2].
    apply N.eqb_eq in E1. apply negb_true_iff, orb_false_iff in E2. destruct E2 as [E2 E3].
    apply negb_false_iff in E3. destruct (c_pending c1) as [|? ?] eqn:Hp1; [|discriminate]. clear E3.
    rewrite (flush_block_eq c2 cb1 TF_FINISH);
      [|rewrite K1; exact Hraw|exact K3|exact K4|rewrite K2; exact Hwb|right; reflexivity|apply orb_true_r
       |rewrite Htb2; unfold BS in *; lia|rewrite K6; apply adler_lt; exact HAv'|exact Hpe2
       |rewrite Hlp2, Hcb2, Htb2; exact Hlp1|unfold Dz in HSn; rewrite Htb2, Hds2; exact HSn].
    cbn [bind]. rewrite Ecb1.
    destruct (flush_output (after_block c2) (CBuf len1 w1 ofs1) (block_bytes c2 TF_FINISH)) as [[n c3] cb3] eqn:Efo.
    pose proof (flush_output_nonneg _ _ _ _ _ _ _ _ Efo) as Hn0.
    pose proof (flush_output_fields _ _ _ _ _ _ Efo) as [Et3 Ed3].
    unfold after_block in Et3, Ed3. cbn [mkc c_total_bytes c_dsize] in Et3, Ed3.
    replace (n <? 0)%Z with false by (symmetry; apply Z.ltb_ge; exact Hn0).
    cbn [bind].
    assert (Hcb3 : exists w3 ofs3, cb3 = CBuf len1 w3 ofs3).
    { unfold flush_output in Efo. destruct (N.of_nat (length (block_bytes c2 TF_FINISH)) =? 0); [inversion Efo; eauto|].
      destruct (ntake (block_bytes c2 TF_FINISH) (len1 - ofs1)) as [[now later] k]. inversion Efo; eauto. }
    destruct Hcb3 as (w3 & ofs3 & ->).
    set (c4 := if c_flush (set_finished c3 (c_flush c3 =? TF_FINISH)) =? TF_FULL
               then set_dsize (set_finished c3 (c_flush c3 =? TF_FINISH)) 0
               else set_finished c3 (c_flush c3 =? TF_FINISH)).
    assert (Hc4 : c_total_bytes c4 <= c_dsize c4).
    { unfold c4. destruct (_ =? TF_FULL); cbn [set_dsize set_finished mkc c_total_bytes c_dsize]; rewrite Et3; lia. }
    clearbody c4.
    destruct (flush_output_buffer c4 (CBuf len1 w3 ofs3)) as [[st c5] cb5] eqn:Ef5.
    apply fob_np in Ef5. destruct Ef5 as (Hst & Ht5 & Hd5).
    unfold CRnp. cbn [r_status r_in r_comp]. split; [exact Hst|]. split; [exact Hsrcle|].
    unfold Dz. cbn [set_prev mkc c_total_bytes c_dsize]. rewrite Ht5, Hd5. exact Hc4.
  - cbn [bind]. rewrite Ecb1.
    destruct (flush_output_buffer c2 (CBuf len1 w1 ofs1)) as [[st c3] cb3] eqn:Ef3.
    apply fob_np in Ef3. destruct Ef3 as (Hst & Ht3 & Hd3).
    unfold CRnp. cbn [r_status r_in r_comp]. split; [exact Hst|]. split; [exact Hsrcle|].
    unfold Dz in *. cbn [set_prev mkc c_total_bytes c_dsize]. rewrite Ht3, Hd3, Htb2, Hds2. exact HSn.
Qed.

Notation CI' := (CI data flags wb).

Definition CQnp (r : res cvres) : Prop :=
  match r with
  | Panic _ => False
  | Ret VPanic => False
  | Ret VUnmodelled => False
  | _ => True
  end.

Lemma cvec_turn_np s :
  CI' s -> Dz (vs_c s) ->
  match cvec_turn s with
  | inl s' => Dz (vs_c s')
  | inr r => CQnp r
  end.
Proof.
  intros [HG Hin] HDz. unfold cvec_turn.
  pose proof (compress_np _ _ (vs_in s) (vs_len s - vs_pos s) HG HDz Hin) as Hp.
  destruct (compress (vs_c s) (vs_in s) (vs_len s - vs_pos s) TF_FINISH) as [cr| |]; try exact I; try contradiction.
  destruct cr as [r|]; [|contradiction].
  destruct Hp as (Hst & Hrin & Hdz).
  destruct Hst as [Hst|Hst]; rewrite Hst.
  - replace (r_in r <=? N.of_nat (length (vs_in s))) with true by (symmetry; apply N.leb_le; exact Hrin).
    cbn [vs_c]. exact Hdz.
  - exact I.
Qed.

End Run.

(* ------------------------------------------------------------------ the statement *)
(* compress_to_vec at level 0 (every flag word with TDEFL_FORCE_ALL_RAW_BLOCKS), every input: the model never
   yields a Panic value, never reaches the panic!("Bug! ...") of the grow-and-retry loop and never leaves the
   modelled fragment; it returns the vector of compress_to_vec_level0 unless its fuel (2^40 turns) runs out *)
Theorem compress_to_vec_level0_never_panics (data : list N) (flags : N) :
  hasf flags FLAG_RAW = true ->
  match compress_to_vec_inner data flags with
  | Ret (VBytes out) => out = FULL data flags 15
  | OutOfFuel => True
  | _ => False
  end.
Proof.
  intros Hraw. unfold compress_to_vec_inner.
  set (s0 := {| vs_c := comp_new flags 15; vs_in := data; vs_len := _; vs_pos := 0; vs_rout := [] |}).
  assert (H0 : CI data flags 15 s0 /\ Dz (vs_c s0)).
  { split; [split; [apply GI_init|intros _; reflexivity]|]. unfold Dz, s0. cbn. lia. }
  pose proof (iter_pow_inv cvec_turn (fun s => CI data flags 15 s /\ Dz (vs_c s))
                (fun r => CQnp r /\ CQ data flags 15 r)) as H.
  assert (H1 : forall s s', CI data flags 15 s /\ Dz (vs_c s) -> cvec_turn s = inl s' -> CI data flags 15 s' /\ Dz (vs_c s')).
  { intros s s' [Hs Hz] Ht. split; [exact (cvec_turn_inl data flags 15 Hraw ltac:(lia) s s' Hs Ht)|].
    pose proof (cvec_turn_np data flags 15 Hraw ltac:(lia) s Hs Hz) as X. rewrite Ht in X. exact X. }
  assert (H2 : forall s r, CI data flags 15 s /\ Dz (vs_c s) -> cvec_turn s = inr r -> CQnp r /\ CQ data flags 15 r).
  { intros s r [Hs Hz] Ht. split; [|exact (cvec_turn_inr data flags 15 Hraw ltac:(lia) s r Hs Ht)].
    pose proof (cvec_turn_np data flags 15 Hraw ltac:(lia) s Hs Hz) as X. rewrite Ht in X. exact X. }
  specialize (H H1 H2 40%nat s0 H0).
  destruct (iter_pow 40 cvec_turn s0) as [s'|r]; [exact I|].
  destruct H as [Hn Hq]. destruct r as [[out| |]| |]; try exact I; try contradiction. exact Hq.
Qed.
