(* C19, second sentence, on raw streams of stored blocks: with stop-at-block-boundary requested, a call that is given the
   whole remaining stream and room for its payload processes EXACTLY ONE block: after a non-final block it returns
   BlockBoundary - having consumed exactly that block and written exactly its bytes, with no pending bits - and the
   decoder it leaves continues at the next block header; after the final block it returns Done.  Hence the caller's
   loop sees one stop per non-final block, then Done.  (InflateStored.v with the block the call is in pinned in the
   per-state shape - possible because with the flag set no call goes round the block loop twice.) *)
From Coq Require Import NArith ZArith List Bool Lia Arith.
From MZ.lib Require Import Arr Bits Mach.
From MZ.spec Require Import Adler DeflateSpec.
From MZ.model Require Import InflateCore.
From MZ.proofs Require Import IterPow StoredSpec InflateStored.
From MZ.proofs Require InflateFrame3.
Import ListNotations.
Local Open Scope N_scope.
Arguments N.add : simpl never.
Arguments N.sub : simpl never.
Arguments N.mul : simpl never.
Arguments N.ltb : simpl never.
Arguments N.leb : simpl never.
Arguments N.eqb : simpl never.
Arguments N.land : simpl never.
Arguments N.shiftr : simpl never.
Arguments N.shiftl : simpl never.
Arguments N.lor : simpl never.

Section Stop.
Variable flags : N.
Hypothesis HZ : has flags F_ZLIB = false.
Hypothesis HSB : has flags F_STOPBB = true.

(* the block this call is in, and the blocks after it *)
Variables (f0 : bool) (ch0 : list N) (bsR : list blk).
Definition B : list blk := (f0, ch0) :: bsR.
Hypothesis HB : shapeB B.

Definition in_buf : list N := enc B.
Definition in_len : N := N.of_nat (length in_buf).
Definition P : list N := pay B.

Variables (omax mask p0 : N).
Hypothesis Hroom : p0 + N.of_nat (length P) <= omax.

Definition outpre (c : cfg) : list N := aget_list (out c) p0 (pos c - p0).

Definition Sh (c : cfg) : Prop :=
  match st c with
  | Start | ReadBlockHeader =>
      (st c = ReadBlockHeader -> nb c = 0 /\ bb c = 0) /\
      exists bs, bs = B /\ shapeB bs /\ inp c = enc bs /\ outpre c ++ pay bs = P
  | BlockTypeNoCompression =>
      nb c = 5 /\ bb c = 0 /\ exists f ch bs, (f, ch, bs) = (f0, ch0, bsR) /\ shapeT f bs /\ blk_ok (f, ch) /\ d_finish (rr c) = b2n f /\
      inp c = hdr4 ch ++ ch ++ enc bs /\ outpre c ++ ch ++ pay bs = P
  | RawHeader =>
      nb c = 0 /\ bb c = 0 /\ exists f ch bs, (f, ch, bs) = (f0, ch0, bsR) /\ shapeT f bs /\ blk_ok (f, ch) /\ d_finish (rr c) = b2n f /\
      ctr c <= 4 /\ inp c = skipn (N.to_nat (ctr c)) (hdr4 ch) ++ ch ++ enc bs /\
      (forall j, (j < N.to_nat (ctr c))%nat -> aget (d_raw (rr c)) (N.of_nat j) = nth j (hdr4 ch) 0) /\
      outpre c ++ ch ++ pay bs = P
  | RawMemcpy1 | RawMemcpy2 =>
      nb c = 0 /\ bb c = 0 /\ exists f rest bs, (f, bs) = (f0, bsR) /\ shapeT f bs /\ d_finish (rr c) = b2n f /\
      ctr c = N.of_nat (length rest) /\ inp c = rest ++ enc bs /\ outpre c ++ rest ++ pay bs = P /\
      (st c = RawMemcpy2 -> rest <> [])
  | BlockDone =>
      nb c = 0 /\ bb c = 0 /\ exists f bs, (f, bs) = (f0, bsR) /\ shapeT f bs /\ d_finish (rr c) = b2n f /\
      inp c = enc bs /\ outpre c ++ pay bs = P
  | DoneForever => f0 = true /\ nb c = 0 /\ inp c = [] /\ outpre c = P
  | _ => False
  end.

Definition Inv (c : cfg) : Prop :=
  ileft c = N.of_nat (length (inp c)) /\ (exists pre, in_buf = pre ++ inp c) /\
  p0 <= pos c /\ pos c <= omax /\ omax <= alen (out c) /\ Sh c.

Definition Post (r : res (status * cfg)) : Prop :=
  match r with
  | Ret (s, c) =>
      (s = Done /\ f0 = true /\ nb c = 0 /\ inp c = [] /\ ileft c = 0 /\ outpre c = P /\ p0 <= pos c /\ pos c <= omax) \/
      (s = BlockBoundary /\ f0 = false /\ st c = BlockDone /\ nb c = 0 /\ bb c = 0 /\ inp c = enc bsR /\
       ileft c = N.of_nat (length (inp c)) /\ (exists pre, in_buf = pre ++ inp c) /\
       outpre c ++ pay bsR = P /\ p0 <= pos c /\ pos c <= omax /\ omax <= alen (out c))
  | _ => True
  end.

Lemma length_outpre c : p0 <= pos c -> N.of_nat (length (outpre c)) = pos c - p0.
Proof. intros H. unfold outpre. apply length_aget_list. Qed.

Lemma shapeB_nonempty bs : shapeB bs -> bs <> [].
Proof. intros H; inversion H; discriminate. Qed.

Lemma shapeB_split bs : shapeB bs -> exists f ch bs', bs = (f, ch) :: bs' /\ shapeT f bs' /\ blk_ok (f, ch).
Proof.
  intros H. inversion H; subst.
  - exists true, ch, []. split; [reflexivity|]. split; [left; split; reflexivity|assumption].
  - exists false, ch, bs0. split; [reflexivity|]. split; [right; split; [reflexivity|assumption]|assumption].
Qed.

Notation stepf := (step flags in_buf in_len omax mask).

Definition StepOk (r : res (action * cfg)) : Prop :=
  match r with
  | Ret (ANone, c') => Inv c'
  | Ret (AJump s, c') => Inv (set_st c' s)
  | Ret (AEnd s, c') => Post (Ret (s, c'))
  | _ => True
  end.

Lemma b2n_le1 f : b2n f <= 1. Proof. destruct f; cbn; lia. Qed.

Lemma st_start c : Inv c -> st c = Start -> StepOk (stepf c).
Proof.
  intros (Hi & Hpre & Hp0 & Hpm & Hom & HS) E. unfold Sh in HS. rewrite E in HS.
  destruct HS as (_ & bs & Hpin & Hsh & Hin & Hout).
  unfold step. rewrite E, HZ. unfold jump, StepOk, Inv, Sh.
  cbn [set_st mk st inp ileft out pos nb bb rr].
  repeat split; try assumption.
  exists bs. repeat split; assumption.
Qed.

Lemma st_rbh c : Inv c -> st c = ReadBlockHeader -> StepOk (stepf c).
Proof.
  intros (Hi & (pre & Hpre) & Hp0 & Hpm & Hom & HS) E. unfold Sh in HS. rewrite E in HS.
  destruct HS as (Hnb & bs & Hpin & Hsh & Hin & Hout). destruct (Hnb eq_refl) as [Hn Hb].
  destruct (shapeB_split bs Hsh) as (f & ch & bs' & Ebs & HT & Hok).
  assert (Hpin' : (f, ch, bs') = (f0, ch0, bsR)).
  { rewrite Ebs in Hpin. unfold B in Hpin. inversion Hpin. reflexivity. }
  rewrite Ebs in Hin, Hout. clear Hpin Ebs Hsh.
  unfold enc in Hin. cbn [map concat fst snd] in Hin. unfold stored_block in Hin at 1. cbn [app] in Hin.
  unfold step. rewrite E.
  rewrite (read_bits_one_byte flags c (b2n f) _ 3 _ Hn Hb Hin) by (pose proof (b2n_le1 f); lia).
  assert (Hbits : N.land (b2n f) (N.ones 3) = b2n f) by (destruct f; reflexivity).
  assert (Hshr : N.shiftr (b2n f) 3 = 0) by (destruct f; reflexivity).
  rewrite Hbits, Hshr. cbv zeta.
  assert (Hfin : N.land (b2n f) 1 = b2n f) by (destruct f; reflexivity).
  assert (Hbt : N.land (N.shiftr (b2n f) 1) 3 = 0) by (destruct f; reflexivity).
  cbn [d_block_type r_blk upd_dec set_rr set_bits set_in mk rr]. rewrite Hbt. change (0 =? 0) with true. cbv iota.
  unfold jump, StepOk, Inv, Sh.
  cbn [set_st set_rr set_bits set_in mk st inp ileft out pos nb bb rr d_finish r_blk upd_dec].
  rewrite Hi, Hin. cbn [length].
  split; [lia|]. split; [exists (pre ++ [b2n f]); rewrite Hpre, Hin, <- !app_assoc; cbn [app]; reflexivity|].
  repeat split; try assumption.
  exists f, ch, bs'. rewrite Hfin. destruct Hok as [Hok1 Hok2].
  split; [exact Hpin'|]. split; [exact HT|]. split; [split; assumption|]. split; [reflexivity|]. split.
  - unfold hdr4. rewrite <- !app_assoc. reflexivity.
  - unfold pay in *. cbn [map concat snd] in Hout. exact Hout.
Qed.

Lemma st_btnc c : Inv c -> st c = BlockTypeNoCompression -> StepOk (stepf c).
Proof.
  intros (Hi & Hpre & Hp0 & Hpm & Hom & HS) E. unfold Sh in HS. rewrite E in HS.
  destruct HS as (Hn & Hb & f & ch & bs & Hpin & HT & Hok & Hfin & Hin & Hout).
  unfold step. rewrite E. unfold pad_to_bytes. rewrite Hn. change (N.land 5 7) with 5.
  rewrite read_bits_have by (try rewrite Hn; lia). rewrite Hn, Hb.
  change (N.shiftr 0 5) with 0. change (5 - 5) with 0.
  unfold jump, StepOk, Inv, Sh.
  cbn [set_st set_ctr set_bits mk st inp ileft out pos nb bb rr ctr].
  repeat split; try assumption.
  exists f, ch, bs. change (N.to_nat 0) with 0%nat. cbn [skipn].
  destruct Hok as [Hok1 Hok2].
  repeat split; try assumption; try lia.
Qed.

Lemma skipn_nth_cons {A} (d : A) : forall (l : list A) k, (k < length l)%nat -> skipn k l = nth k l d :: skipn (S k) l.
Proof.
  induction l as [|x l IH]; intros k H; cbn [length] in H; [lia|].
  destruct k as [|k]; [reflexivity|]. cbn [skipn nth]. apply IH. lia.
Qed.

Lemma le16_value v : v < 65536 -> nth 0 (le16 v) 0 + 256 * nth 1 (le16 v) 0 = v.
Proof.
  intros H. unfold le16. cbn [nth]. rewrite (N.mod_small (v / 256)) by (apply N.div_lt_upper_bound; lia).
  pose proof (N.div_mod v 256 ltac:(lia)). lia.
Qed.

Lemma hdr4_length ch : length (hdr4 ch) = 4%nat.
Proof. reflexivity. Qed.

Lemma hdr4_bytes ch j : (j < 4)%nat -> nth j (hdr4 ch) 0 < 256.
Proof.
  intros H. unfold hdr4, le16. cbn [app].
  destruct j as [|[|[|[|j]]]]; cbn [nth]; try lia; apply N.mod_lt; lia.
Qed.

Lemma st_rawheader c : Inv c -> st c = RawHeader -> StepOk (stepf c).
Proof.
  intros (Hi & (pre & Hpre) & Hp0 & Hpm & Hom & HS) E. unfold Sh in HS. rewrite E in HS.
  destruct HS as (Hn & Hb & f & ch & bs & Hpin & HT & [Hok1 Hok2] & Hfin & Hc4 & Hin & Hraw & Hout).
  cbn [snd] in Hok1, Hok2.
  unfold step. rewrite E.
  destruct (ctr c <? 4) eqn:Ek.
  - apply N.ltb_lt in Ek. rewrite Hn. change (negb (0 =? 0)) with false. cbv iota.
    rewrite (skipn_nth_cons 0 (hdr4 ch) (N.to_nat (ctr c))) in Hin by (rewrite hdr4_length; lia).
    cbn [app] in Hin. unfold read_byte. rewrite Hin.
    unfold StepOk, Inv, Sh.
    cbn [set_ctr set_rr set_in mk st inp ileft out pos nb bb rr ctr d_raw r_raw upd_dec d_finish].
    rewrite E, Hi, Hin. cbn [length].
    split; [lia|]. split.
    { exists (pre ++ [nth (N.to_nat (ctr c)) (hdr4 ch) 0]). rewrite Hpre, Hin, <- app_assoc. reflexivity. }
    repeat split; try assumption.
    exists f, ch, bs. split; [exact Hpin|]. split; [exact HT|]. split; [split; assumption|]. split; [exact Hfin|]. split; [lia|].
    split; [replace (N.to_nat (ctr c + 1)) with (S (N.to_nat (ctr c))) by lia; reflexivity|].
    split; [|exact Hout].
    intros j Hj. destruct (Nat.eq_dec j (N.to_nat (ctr c))) as [->|Hne].
    + rewrite N2Nat.id. apply aget_aset_same.
    + rewrite aget_aset_other by lia. apply Hraw. lia.
  - apply N.ltb_ge in Ek. assert (Hk4 : ctr c = 4) by lia. cbv zeta.
    rewrite Hk4 in *. change (N.to_nat 4) with 4%nat in *.
    assert (H0 := Hraw 0%nat ltac:(lia)). assert (H1 := Hraw 1%nat ltac:(lia)).
    assert (H2 := Hraw 2%nat ltac:(lia)). assert (H3 := Hraw 3%nat ltac:(lia)).
    change (N.of_nat 0) with 0 in H0. change (N.of_nat 1) with 1 in H1.
    change (N.of_nat 2) with 2 in H2. change (N.of_nat 3) with 3 in H3.
    rewrite H0, H1, H2, H3.
    set (len := N.of_nat (length ch)) in *.
    assert (Hlen : nth 0 (hdr4 ch) 0 + 256 * nth 1 (hdr4 ch) 0 = len).
    { unfold hdr4. fold len. change (nth 0 (le16 len ++ le16 (65535 - len)) 0) with (nth 0 (le16 len) 0).
      change (nth 1 (le16 len ++ le16 (65535 - len)) 0) with (nth 1 (le16 len) 0). apply le16_value. lia. }
    assert (Hchk : nth 2 (hdr4 ch) 0 + 256 * nth 3 (hdr4 ch) 0 = 65535 - len).
    { unfold hdr4. fold len. change (nth 2 (le16 len ++ le16 (65535 - len)) 0) with (nth 0 (le16 (65535 - len)) 0).
      change (nth 3 (le16 len ++ le16 (65535 - len)) 0) with (nth 1 (le16 (65535 - len)) 0). apply le16_value. lia. }
    rewrite Hlen, Hchk.
    replace (len + (65535 - len) =? 65535) with true by (symmetry; apply N.eqb_eq; lia). cbn [negb].
    assert (Hin' : inp c = ch ++ enc bs) by (rewrite Hin; reflexivity).
    assert (Hpin2 : (f, bs) = (f0, bsR)) by (inversion Hpin; reflexivity).
    destruct (len =? 0) eqn:E0.
    + apply N.eqb_eq in E0. assert (ch = []) by (destruct ch; [reflexivity|unfold len in E0; cbn [length] in E0; lia]). subst ch.
      unfold jump, StepOk, Inv, Sh.
      cbn [set_st set_ctr mk st inp ileft out pos nb bb rr ctr].
      repeat split; try assumption; eauto.
      exists f, bs. repeat split; assumption.
    + cbn [set_ctr mk nb]. rewrite Hn. change (negb (0 =? 0)) with false. cbv iota.
      unfold jump, StepOk, Inv, Sh.
      cbn [set_st set_ctr mk st inp ileft out pos nb bb rr ctr].
      repeat split; try assumption; eauto.
      exists f, ch, bs. repeat split; try assumption; try reflexivity. discriminate.
Qed.

Lemma room_for c rest tail :
  p0 <= pos c -> outpre c ++ rest ++ tail = P -> pos c + N.of_nat (length rest) <= omax.
Proof.
  intros Hp H. assert (E : length (outpre c ++ rest ++ tail) = length P) by (rewrite H; reflexivity).
  rewrite !app_length in E. pose proof (length_outpre c Hp). lia.
Qed.

Lemma st_memcpy1 c : Inv c -> st c = RawMemcpy1 -> StepOk (stepf c).
Proof.
  intros (Hi & Hpre & Hp0 & Hpm & Hom & HS) E. unfold Sh in HS. rewrite E in HS.
  destruct HS as (Hn & Hb & f & rest & bs & Hpin & HT & Hfin & Hctr & Hin & Hout & _).
  unfold step. rewrite E. unfold bytes_left, csub.
  replace (pos c <=? omax) with true by (symmetry; apply N.leb_le; exact Hpm). cbn [bind].
  destruct (ctr c =? 0) eqn:E0.
  - apply N.eqb_eq in E0. assert (rest = []) by (destruct rest; [reflexivity|cbn [length] in Hctr; lia]). subst rest.
    unfold jump, StepOk, Inv, Sh. cbn [set_st mk st inp ileft out pos nb bb rr].
    repeat split; try assumption. exists f, bs. repeat split; assumption.
  - apply N.eqb_neq in E0. pose proof (room_for c rest (pay bs) Hp0 Hout) as Hr.
    replace (omax - pos c =? 0) with false by (symmetry; apply N.eqb_neq; lia).
    unfold jump, StepOk, Inv, Sh. cbn [set_st mk st inp ileft out pos nb bb rr ctr].
    repeat split; try assumption. exists f, rest, bs. repeat split; try assumption.
    intros _ X. subst rest. cbn [length] in Hctr. lia.
Qed.

Lemma st_memcpy2 c : Inv c -> st c = RawMemcpy2 -> StepOk (stepf c).
Proof.
  intros (Hi & (pre & Hpre) & Hp0 & Hpm & Hom & HS) E. unfold Sh in HS. rewrite E in HS.
  destruct HS as (Hn & Hb & f & rest & bs & Hpin & HT & Hfin & Hctr & Hin & Hout & Hne).
  specialize (Hne eq_refl).
  assert (Hrl : 0 < N.of_nat (length rest)) by (destruct rest; [contradiction|cbn [length]; lia]).
  pose proof (room_for c rest (pay bs) Hp0 Hout) as Hr.
  unfold step. rewrite E.
  assert (Hil : N.of_nat (length rest) <= ileft c) by (rewrite Hi, Hin, app_length; lia).
  replace (0 <? ileft c) with true by (symmetry; apply N.ltb_lt; lia).
  unfold bytes_left, csub.
  replace (pos c <=? omax) with true by (symmetry; apply N.leb_le; exact Hpm). cbn [bind].
  replace (N.min (N.min (omax - pos c) (ileft c)) (ctr c)) with (N.of_nat (length rest)) by lia.
  unfold guard. replace (pos c + N.of_nat (length rest) <=? alen (out c)) with true by (symmetry; apply N.leb_le; lia).
  cbn [bind]. rewrite Nat2N.id.
  assert (Hfirst : firstn (length rest) (inp c) = rest) by (rewrite Hin, firstn_app, Nat.sub_diag, firstn_all; cbn [firstn]; apply app_nil_r).
  assert (Hskip : skipn (length rest) (inp c) = enc bs) by (rewrite Hin, skipn_app, skipn_all, Nat.sub_diag; reflexivity).
  cbv zeta. cbn [set_st set_ctr set_in set_out mk inp ileft ctr out pos].
  rewrite Hfirst, Hskip.
  unfold jump, StepOk, Inv, Sh.
  cbn [set_st set_ctr set_in set_out mk st inp ileft out pos nb bb rr ctr].
  split; [rewrite Hi, Hin, app_length; lia|]. split; [exists (pre ++ rest); rewrite Hpre, Hin, app_assoc; reflexivity|].
  split; [lia|]. split; [lia|]. split; [rewrite alen_aset_list; exact Hom|].
  split; [exact Hn|]. split; [exact Hb|].
  exists f, [], bs. split; [exact Hpin|]. split; [exact HT|]. split; [exact Hfin|]. split; [cbn [length]; lia|]. split; [reflexivity|].
  split; [|discriminate].
  unfold outpre. cbn [set_st set_ctr set_in set_out mk out pos].
  rewrite aget_list_aset_list by exact Hp0. cbn [app]. rewrite <- app_assoc. exact Hout.
Qed.

Lemma enc_nil : enc [] = []. Proof. reflexivity. Qed.
Lemma pay_nil : pay [] = []. Proof. reflexivity. Qed.

Lemma st_blockdone c : Inv c -> st c = BlockDone -> StepOk (stepf c).
Proof.
  intros (Hi & (pre & Hpre) & Hp0 & Hpm & Hom & HS) E. unfold Sh in HS. rewrite E in HS.
  destruct HS as (Hn & Hb & f & bs & Hpin & HT & Hfin & Hin & Hout).
  unfold step. rewrite E, Hfin.
  destruct HT as [[-> ->]|[-> Hsh]].
  - (* the final block *)
    change (negb (b2n true =? 0)) with true. cbv iota.
    unfold pad_to_bytes. rewrite Hn. change (N.land 0 7) with 0.
    rewrite read_bits_have by (try rewrite Hn; lia). rewrite Hn, Hb. cbn [bind].
    change (N.shiftr 0 0) with 0. change (0 - 0) with 0.
    cbn [set_bits mk ileft nb bb inp].
    assert (Hlen : in_len = N.of_nat (length pre) + ileft c).
    { unfold in_len. rewrite Hpre, app_length, Hi. lia. }
    replace (in_len - ileft c) with (N.of_nat (length pre)) by lia.
    unfold undo_bytes. change (N.shiftr 0 3) with 0. rewrite N.min_0_l. change (N.shiftl 0 3) with 0. change (0 - 0) with 0.
    cbv zeta. rewrite N.sub_0_r, Nat2N.id.
    assert (Hsk : skipn (length pre) in_buf = inp c) by (rewrite Hpre, skipn_app, skipn_all, Nat.sub_diag; reflexivity).
    rewrite Hsk.
    cbn [set_bits set_in mk nb bb]. unfold guard. change (0 <? 64) with true. cbn [bind].
    change (N.land 0 (N.ones 0)) with 0. change (0 =? 0) with true. cbn [bind].
    rewrite HZ.
    unfold jump, StepOk, Inv, Sh. cbn [set_st set_bits set_in mk st inp ileft out pos nb bb rr].
    rewrite enc_nil in Hin. rewrite pay_nil, app_nil_r in Hout.
    replace (in_len - N.of_nat (length pre)) with (ileft c) by lia.
    assert (Hf0 : f0 = true) by (inversion Hpin; reflexivity).
    repeat split; try assumption. exists pre. exact Hpre.
  - (* a non-final block: the stop *)
    change (negb (b2n false =? 0)) with false. cbv iota. rewrite HSB.
    unfold StepOk, Post. right.
    assert (Hf0 : f0 = false) by (inversion Hpin; reflexivity).
    assert (Hbs : bs = bsR) by (inversion Hpin; reflexivity). subst bs.
    split; [reflexivity|]. split; [exact Hf0|]. split; [exact E|]. split; [exact Hn|]. split; [exact Hb|].
    split; [exact Hin|]. split; [exact Hi|]. split; [exists pre; exact Hpre|]. split; [exact Hout|].
    split; [exact Hp0|]. split; [exact Hpm|exact Hom].
Qed.

Lemma st_doneforever c : Inv c -> st c = DoneForever -> StepOk (stepf c).
Proof.
  intros (Hi & Hpre & Hp0 & Hpm & Hom & HS) E. unfold Sh in HS. rewrite E in HS.
  destruct HS as (Hf0 & Hn & Hin & Hout).
  unfold step. rewrite E. unfold StepOk, Post. left.
  repeat split; try assumption. rewrite Hi, Hin. reflexivity.
Qed.

Lemma step_ok c : Inv c -> StepOk (stepf c).
Proof.
  intros HI. destruct (st c) eqn:E;
    try (exfalso; destruct HI as (_ & _ & _ & _ & _ & HS); unfold Sh in HS; rewrite E in HS; exact HS).
  - apply st_start; assumption.
  - apply st_rbh; assumption.
  - apply st_btnc; assumption.
  - apply st_rawheader; assumption.
  - apply st_memcpy1; assumption.
  - apply st_memcpy2; assumption.
  - apply st_blockdone; assumption.
  - apply st_doneforever; assumption.
Qed.

Theorem run_stored c : Inv c -> Post (run flags in_buf in_len omax mask c).
Proof.
  intros HI. unfold run.
  pose proof (iter_pow_inv (turn flags in_buf in_len omax mask) Inv Post) as H.
  assert (H1 : forall s s', Inv s -> turn flags in_buf in_len omax mask s = inl s' -> Inv s').
  { intros s s' Hs Ht. unfold turn in Ht. pose proof (step_ok s Hs) as X. unfold StepOk in X.
    destruct (stepf s) as [[[| |] c']| |]; inversion Ht; subst; exact X. }
  assert (H2 : forall s r, Inv s -> turn flags in_buf in_len omax mask s = inr r -> Post r).
  { intros s r Hs Ht. unfold turn in Ht. pose proof (step_ok s Hs) as X. unfold StepOk in X.
    destruct (stepf s) as [[[| |] c']| |]; inversion Ht; subst; try exact X; exact I. }
  specialize (H H1 H2 62%nat c HI).
  destruct (iter_pow 62 (turn flags in_buf in_len omax mask) c) as [c'|r]; [exact I|exact H].
Qed.
End Stop.

(* ------------------------------------------------------------------ one call *)
(* a decoder standing at a block boundary: fresh, or left there by a stop *)
Definition at_boundary (d : dec) : Prop :=
  (d_state d = Start \/ d_state d = ReadBlockHeader) /\ d_num_bits d = 0 /\ d_bit_buf d = 0.

Lemma at_boundary_default : at_boundary dec_default.
Proof. unfold at_boundary. cbn. auto. Qed.

Theorem stop_call flags f0 ch0 bsR d o p res :
  has flags F_ZLIB = false -> has flags F_STOPBB = true -> has flags F_NONWRAP = true ->
  shapeB ((f0, ch0) :: bsR) -> at_boundary d ->
  p + N.of_nat (length (pay ((f0, ch0) :: bsR))) <= alen o -> alen o <= USIZE_MAX ->
  decompress d (enc ((f0, ch0) :: bsR)) o p USIZE_MAX flags = Ret res ->
  cr_out res = N.of_nat (length ch0) /\ aget_list (cr_buf res) p (cr_out res) = ch0 /\ alen (cr_buf res) = alen o /\
  (forall i, i < p -> aget (cr_buf res) i = aget o i) /\
  (if f0
   then cr_status res = Done /\ cr_in res = N.of_nat (length (enc ((f0, ch0) :: bsR)))
   else cr_status res = BlockBoundary /\ cr_in res = N.of_nat (length (stored_block false ch0)) /\
        d_state (cr_dec res) = ReadBlockHeader /\ d_num_bits (cr_dec res) = 0 /\ d_bit_buf (cr_dec res) = 0).
Proof.
  intros HZ HSB HNW HB (Hst & Hnb0 & Hbb0) Hroom Hrep Hd.
  destruct (InflateFrame3.decompress_frame _ _ _ _ _ _ _ Hrep Hd) as (_ & _ & Halen & Hframe & _).
  assert (Hbefore : forall i, i < p -> aget (cr_buf res) i = aget o i) by (intros i Hi; apply Hframe; left; exact Hi).
  clear Hframe. revert Hd.
  set (BB := (f0, ch0) :: bsR) in *.
  unfold decompress. rewrite HNW.
  change (N.land ((USIZE_MAX + 1) mod U64) USIZE_MAX =? 0) with true.
  replace (alen o <? p) with false by (symmetry; apply N.ltb_ge; lia). cbn [negb orb].
  set (omax := N.min (N.min (p + USIZE_MAX) USIZE_MAX) (alen o)).
  assert (Hom : omax = alen o) by (unfold omax; unfold USIZE_MAX in *; lia).
  set (c0 := mk d (d_state d) (d_bit_buf d) (d_num_bits d) (d_dist d) (d_counter d) (d_num_extra d)
                (enc BB) (N.of_nat (length (enc BB))) o p).
  assert (HI : Inv f0 ch0 bsR omax p c0).
  { unfold Inv, c0. cbn [mk ileft inp pos out]. split; [reflexivity|]. split; [exists []; reflexivity|].
    split; [lia|]. split; [lia|]. split; [lia|].
    assert (Hsh : forall X : Prop, (X -> d_num_bits d = 0 /\ d_bit_buf d = 0) /\
                  exists bs, bs = B f0 ch0 bsR /\ shapeB bs /\ enc BB = enc bs /\
                             aget_list o p (p - p) ++ pay bs = P f0 ch0 bsR).
    { intros X. split; [intros _; split; assumption|]. exists BB. split; [reflexivity|]. split; [exact HB|]. split; [reflexivity|].
      rewrite N.sub_diag. reflexivity. }
    unfold Sh, outpre. cbn [mk st nb bb inp out pos]. destruct Hst as [-> | ->]; apply Hsh. }
  pose proof (run_stored flags HZ HSB f0 ch0 bsR omax USIZE_MAX p ltac:(unfold P, B; fold BB; lia) c0 HI) as HP.
  unfold in_len, in_buf, B in HP. fold BB in HP.
  destruct (run flags (enc BB) (N.of_nat (length (enc BB))) omax USIZE_MAX c0) as [[s c]| |]; cbn [bind]; try discriminate.
  unfold Post in HP.
  destruct HP as [(Hs & Hf0 & Hnb & Hinp & Hil & Hout & Hp0 & Hpm)|(Hs & Hf0 & Est & Hnb & Hbb & Hinp & Hil & (pre & Hpre) & Hout & Hp0 & Hpm & _)].
  - (* the final block: Done *)
    rewrite Hs, Hf0. clear Hs s.
    rewrite Hil, Hnb, N.sub_0_r.
    unfold undo_bytes. change (N.shiftr 0 3) with 0. rewrite N.min_0_l. change (N.shiftl 0 3) with 0. change (0 - 0) with 0.
    unfold csub. replace (pos c <=? omax) with true by (symmetry; apply N.leb_le; exact Hpm). cbn [bind].
    unfold guard. change (0 <? 64) with true. cbn [bind].
    replace (p <=? pos c) with true by (symmetry; apply N.leb_le; lia). cbn [bind].
    rewrite HZ. cbn [andb].
    assert (HbsR : bsR = []) by (subst f0; inversion HB; reflexivity).
    assert (HP' : P true ch0 bsR = ch0).
    { unfold P, B, pay. rewrite HbsR. cbn [map concat snd]. apply app_nil_r. }
    rewrite Hf0 in Hout. rewrite HP' in Hout.
    assert (Hlen : N.of_nat (length ch0) = pos c - p).
    { rewrite <- Hout at 1. unfold outpre. rewrite length_aget_list. reflexivity. }
    destruct (if has flags F_IGNORE then false else false || has flags F_COMPUTE);
      cbn [andb]; change (0 <=? status_code Done)%Z with true; cbv iota;
      replace (0 <=? N.of_nat (length (enc BB))) with true by (symmetry; apply N.leb_le; lia); cbv beta iota delta [bind];
      intros H; match type of H with Ret ?r = Ret res => assert (E : res = r) by congruence end; clear H; subst res; unfold cr_status, cr_in, cr_out, cr_buf, cr_dec; cbv beta iota;
      unfold outpre in Hout; (split; [lia|]); (split; [exact Hout|]); (split; [exact Halen|]); (split; [exact Hbefore|]);
      (split; [reflexivity|lia]).
  - (* a non-final block: the stop *)
    rewrite Hs, Hf0. clear Hs s. rewrite Hf0 in Hout.
    rewrite Hnb.
    unfold undo_bytes. change (N.shiftr 0 3) with 0. rewrite N.min_0_l. change (N.shiftl 0 3) with 0. change (0 - 0) with 0.
    cbv iota.
    unfold csub. replace (pos c <=? omax) with true by (symmetry; apply N.leb_le; exact Hpm). cbn [bind].
    unfold guard. change (0 <? 64) with true. cbn [bind].
    replace (p <=? pos c) with true by (symmetry; apply N.leb_le; lia). cbn [bind].
    rewrite HZ. cbn [andb].
    assert (HP' : P false ch0 bsR = ch0 ++ pay bsR) by reflexivity.
    rewrite HP' in Hout. apply app_inv_tail in Hout.
    assert (Hlen : N.of_nat (length ch0) = pos c - p).
    { rewrite <- Hout at 1. unfold outpre. rewrite length_aget_list. reflexivity. }
    assert (Hcons : N.of_nat (length (enc BB)) - ileft c = N.of_nat (length (stored_block false ch0))).
    { assert (X : enc BB = stored_block false ch0 ++ enc bsR) by (unfold BB, enc; rewrite Hf0; reflexivity).
      rewrite X, Hil, Hinp, app_length. lia. }
    rewrite Hcons, N.sub_0_r, Hbb. change (N.land 0 (N.ones 0)) with 0.
    destruct (if has flags F_IGNORE then false else false || has flags F_COMPUTE);
      cbn [andb]; change (0 <=? status_code BlockBoundary)%Z with true; cbv iota;
      replace (0 <=? N.of_nat (length (stored_block false ch0))) with true by (symmetry; apply N.leb_le; lia); cbv beta iota delta [bind];
      intros H; match type of H with Ret ?r = Ret res => assert (E : res = r) by congruence end; clear H; subst res; unfold cr_status, cr_in, cr_out, cr_buf, cr_dec, write_back, d_state, d_num_bits, d_bit_buf; cbv beta iota;
      unfold outpre in Hout; (split; [lia|]); (split; [exact Hout|]); (split; [exact Halen|]); (split; [exact Hbefore|]);
      (repeat split; reflexivity).
Qed.

(* ------------------------------------------------------------------ the caller's loop *)
(* call again after every stop, with what is left of the stream and the space after what has been written;
   the number of stops is counted *)
Fixpoint stop_loop (flags : N) (fuel : nat) (d : dec) (input : list N) (o : arr) (p stops : N)
  : res (status * N * arr * N) :=
  match fuel with
  | O => OutOfFuel
  | S k =>
      match decompress d input o p USIZE_MAX flags with
      | Ret r =>
          match cr_status r with
          | BlockBoundary =>
              stop_loop flags k (cr_dec r) (skipn (N.to_nat (cr_in r)) input) (cr_buf r) (p + cr_out r) (stops + 1)
          | s => Ret (s, stops, cr_buf r, p + cr_out r)
          end
      | Panic n => Panic n
      | OutOfFuel => OutOfFuel
      end
  end.

Lemma aget_list_agree a b i n :
  (forall j, i <= j -> j < i + n -> aget a j = aget b j) -> aget_list a i n = aget_list b i n.
Proof.
  intros H. apply (nth_ext _ _ 0 0).
  - unfold aget_list. rewrite !length_aget_list_nat. reflexivity.
  - unfold aget_list. rewrite length_aget_list_nat. intros k Hk.
    rewrite !nth_aget_list_nat by exact Hk. apply H; lia.
Qed.

Lemma aget_list_split' a i n m : aget_list a i (n + m) = aget_list a i n ++ aget_list a (i + n) m.
Proof.
  apply (nth_ext _ _ 0 0).
  - unfold aget_list. rewrite app_length, !length_aget_list_nat. lia.
  - unfold aget_list. rewrite length_aget_list_nat. intros k Hk.
    rewrite nth_aget_list_nat by exact Hk.
    destruct (Nat.lt_ge_cases k (N.to_nat n)) as [H1|H2].
    + rewrite app_nth1 by (rewrite length_aget_list_nat; exact H1).
      rewrite nth_aget_list_nat by exact H1. reflexivity.
    + rewrite app_nth2 by (rewrite length_aget_list_nat; exact H2).
      rewrite length_aget_list_nat. rewrite nth_aget_list_nat by lia. f_equal. lia.
Qed.

Theorem stop_loop_blocks flags :
  has flags F_ZLIB = false -> has flags F_STOPBB = true -> has flags F_NONWRAP = true ->
  forall bs, shapeB bs -> forall fuel d o p stops s stops' o' p',
  at_boundary d -> p + N.of_nat (length (pay bs)) <= alen o -> alen o <= USIZE_MAX ->
  stop_loop flags fuel d (enc bs) o p stops = Ret (s, stops', o', p') ->
  s = Done /\ stops' + 1 = stops + N.of_nat (length bs) /\ p' = p + N.of_nat (length (pay bs)) /\
  aget_list o' p (N.of_nat (length (pay bs))) = pay bs /\ alen o' = alen o /\
  (forall i, i < p -> aget o' i = aget o i).
Proof.
  intros HZ HSB HNW bs0 Hsh0. induction Hsh0 as [ch Hok|ch bs Hok Hsh IH]; intros fuel d o p stops s stops' o' p' Hd Hroom Hrep.
  - (* the final block *)
    destruct fuel as [|k]; cbn [stop_loop]; [discriminate|].
    destruct (decompress d (enc [(true, ch)]) o p USIZE_MAX flags) as [r| |] eqn:Ed; try discriminate.
    destruct (stop_call flags true ch [] d o p r HZ HSB HNW (sh_last ch Hok) Hd Hroom Hrep Ed) as (Ho & Hw & Hal & Hbef & Hs & Hin).
    rewrite Hs. intros H; inversion H as [[E1 E2 E3 E4]]; clear H. subst s stops' o' p'.
    assert (Hp : pay [(true, ch)] = ch) by (unfold pay; cbn [map concat snd]; apply app_nil_r).
    rewrite Hp. rewrite Ho in Hw.
    split; [reflexivity|]. split; [cbn [length]; lia|]. split; [lia|]. split; [exact Hw|]. split; [exact Hal|exact Hbef].
  - (* a non-final block: one stop, then the rest *)
    destruct fuel as [|k]; cbn [stop_loop]; [discriminate|].
    assert (Hsh' : shapeB ((false, ch) :: bs)) by (constructor; assumption).
    destruct (decompress d (enc ((false, ch) :: bs)) o p USIZE_MAX flags) as [r| |] eqn:Ed; try discriminate.
    destruct (stop_call flags false ch bs d o p r HZ HSB HNW Hsh' Hd Hroom Hrep Ed) as (Ho & Hw & Hal & Hbef & Hs & Hin & Hst & Hnb & Hbb).
    rewrite Hs.
    assert (Henc : enc ((false, ch) :: bs) = stored_block false ch ++ enc bs) by reflexivity.
    assert (Hpay : pay ((false, ch) :: bs) = ch ++ pay bs) by reflexivity.
    rewrite Hin, Nat2N.id, Henc, skipn_app, skipn_all, Nat.sub_diag. cbn [skipn app].
    rewrite Hpay, app_length, Nat2N.inj_add in Hroom.
    intros Hrec.
    apply IH in Hrec; [|split; [right; exact Hst|split; [exact Hnb|exact Hbb]]|rewrite Hal, Ho; lia|rewrite Hal; exact Hrep].
    destruct Hrec as (Hs' & Hstops & Hp' & Hw' & Hal' & Hbef').
    split; [exact Hs'|]. split; [cbn [length]; lia|].
    rewrite Hpay, app_length, Nat2N.inj_add. split; [lia|].
    split; [|split; [rewrite Hal'; exact Hal|intros i Hi; rewrite Hbef' by lia; apply Hbef; exact Hi]].
    rewrite aget_list_split'. f_equal.
    + transitivity (aget_list (cr_buf r) p (N.of_nat (length ch))).
      * apply aget_list_agree. intros j H1 H2. apply Hbef'. lia.
      * rewrite <- Ho. exact Hw.
    + rewrite <- Ho. exact Hw'.
Qed.

(* the statement for a stream: one stop per non-final block, then Done, with the whole payload written *)
Theorem stops_once_per_block flags chunks last fuel o s stops o' p' :
  has flags F_ZLIB = false -> has flags F_STOPBB = true -> has flags F_NONWRAP = true ->
  chunks_ok chunks -> bytes_ok last -> N.of_nat (length last) <= 65535 ->
  N.of_nat (length (concat chunks ++ last)) <= alen o -> alen o <= USIZE_MAX ->
  stop_loop flags fuel dec_default (stored_stream chunks last) o 0 0 = Ret (s, stops, o', p') ->
  s = Done /\ stops = N.of_nat (length chunks) /\ p' = N.of_nat (length (concat chunks ++ last)) /\
  aget_list o' 0 p' = concat chunks ++ last.
Proof.
  intros HZ HSB HNW Hc Hl1 Hl2 Hroom Hrep Hrun.
  set (BB := map (pair false) chunks ++ [(true, last)]).
  pose proof (shapeB_of chunks last Hc Hl1 Hl2) as HB. fold BB in HB.
  rewrite <- (enc_of chunks last) in Hrun. rewrite <- (pay_of chunks last) in Hroom |- *. fold BB in Hrun, Hroom |- *.
  destruct (stop_loop_blocks flags HZ HSB HNW BB HB fuel dec_default o 0 0 s stops o' p' at_boundary_default
              ltac:(lia) Hrep Hrun) as (Hs & Hst & Hp & Hw & _).
  split; [exact Hs|]. split; [unfold BB in Hst; rewrite app_length, map_length in Hst; cbn [length] in Hst; lia|].
  split; [lia|]. rewrite Hp, N.add_0_l. exact Hw.
Qed.
