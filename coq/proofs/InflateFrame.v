(* T_frame: every normal return of M_inf's decompress_with_limit reports counts within the
   offered buffers, leaves every byte outside [out_pos, out_pos + written) unchanged, reports
   HasMoreOutput only with the granted window completely full and NeedsMoreInput only with all
   offered input consumed.  (C08; the counter clauses of C05.)

   The statement is conditional on the call returning ([Ret]); that the model never panics is
   the separate theorem family of proofs/InflateSafe (DESIGN.md). *)
From Coq Require Import NArith ZArith List Bool Lia.
From MZ.lib Require Import Arr Bits Mach.
From MZ.spec Require Import Adler.
From MZ.model Require Import InflateCore.
From MZ.proofs Require Import IterPow.
Import ListNotations.
Local Open Scope N_scope.

Section Frame.
Variable flags : N.
Variable in_buf : list N.
Variable in_len omax mask : N.
Variable o0 : arr.      (* the caller's buffer before the call *)
Variable p0 : N.        (* out_pos *)

(* the invariant: input bookkeeping, position within the granted window, frame *)
Definition J (c : cfg) : Prop :=
  ileft c = N.of_nat (length (inp c)) /\
  p0 <= pos c /\ pos c <= omax /\ omax <= alen (out c) /\ alen (out c) = alen o0 /\
  (forall i, i < p0 \/ pos c <= i -> aget (out c) i = aget o0 i).

Definition A (a : action) (c : cfg) : Prop :=
  match a with
  | AEnd s => (s = HasMoreOutput -> pos c = omax) /\
              (s = NeedsMoreInput \/ s = FailedCannotMakeProgress -> inp c = [])
  | _ => True
  end.

Definition post (r : res (action * cfg)) : Prop :=
  match r with Ret (a, c') => J c' /\ A a c' | _ => True end.

Lemma J_same c c' :
  inp c' = inp c -> ileft c' = ileft c -> out c' = out c -> pos c' = pos c -> J c -> J c'.
Proof. unfold J. intros -> -> -> ->. tauto. Qed.

Ltac jsame := eapply J_same; [reflexivity|reflexivity|reflexivity|reflexivity|eassumption].

Lemma J_set_rr c v : J c -> J (set_rr c v). Proof. intros; jsame. Qed.
Lemma J_set_st c v : J c -> J (set_st c v). Proof. intros; jsame. Qed.
Lemma J_set_bits c b n : J c -> J (set_bits c b n). Proof. intros; jsame. Qed.
Lemma J_set_dist c v : J c -> J (set_dist c v). Proof. intros; jsame. Qed.
Lemma J_set_ctr c v : J c -> J (set_ctr c v). Proof. intros; jsame. Qed.
Lemma J_set_nex c v : J c -> J (set_nex c v). Proof. intros; jsame. Qed.
Hint Resolve J_set_rr J_set_st J_set_bits J_set_dist J_set_ctr J_set_nex : jdb.

Lemma A_jump s c : A (AJump s) c. Proof. exact I. Qed.
Lemma A_none c : A ANone c. Proof. exact I. Qed.
Lemma A_end_other s c :
  s <> HasMoreOutput -> s <> NeedsMoreInput -> s <> FailedCannotMakeProgress -> A (AEnd s) c.
Proof. intros H1 H2 H3. split; [congruence|intros [H|H]; congruence]. Qed.

Lemma A_end_of_input c : inp c = [] -> A (AEnd (end_of_input flags)) c.
Proof.
  intros H. split; [|intros _; exact H].
  unfold end_of_input. destruct (has flags F_MORE); discriminate.
Qed.

Lemma A_more_output c : pos c = omax -> A (AEnd HasMoreOutput) c.
Proof. intros H. split; [intros _; exact H|intros [E|E]; discriminate]. Qed.

(* ---- input side *)
Lemma read_byte_some c b c1 : read_byte c = Some (b, c1) -> J c -> J c1.
Proof.
  unfold read_byte. destruct (inp c) as [|x rest] eqn:E; [discriminate|].
  intros H; inversion H; subst; clear H. unfold J. cbn [set_in mk ileft inp out pos].
  rewrite E. cbn [length]. intros (H1 & H2). split; [lia|exact H2].
Qed.

Lemma read_byte_none c : read_byte c = None -> inp c = [].
Proof. unfold read_byte. destruct (inp c); [reflexivity|discriminate]. Qed.

Lemma push_bits_J c v k c' : push_bits c v k = Ret c' -> J c -> J c'.
Proof.
  unfold push_bits, guard. destruct (nb c <? 64); cbn [bind]; [|discriminate].
  intros H; inversion H; subst. apply J_set_bits.
Qed.

Lemma read_bits_post fuel : forall c amount k,
  (forall c1 bits, J c1 -> post (k c1 bits)) -> J c -> post (read_bits_f flags fuel c amount k).
Proof.
  induction fuel as [|fuel IH]; intros c amount k Hk HJ; cbn [read_bits_f].
  - destruct (nb c <? amount); [exact I|].
    unfold guard. destruct (amount <? 64); cbn [bind]; [|exact I]. apply Hk. apply J_set_bits, HJ.
  - destruct (nb c <? amount).
    + destruct (read_byte c) as [[b c1]|] eqn:E.
      * destruct (push_bits c1 b 8) as [c2| |] eqn:E2; cbn [bind]; try exact I.
        apply IH; [exact Hk|]. eapply push_bits_J; [exact E2|]. eapply read_byte_some; eassumption.
      * cbn [post]. split; [exact HJ|]. apply A_end_of_input, read_byte_none, E.
    + unfold guard. destruct (amount <? 64); cbn [bind]; [|exact I]. apply Hk. apply J_set_bits, HJ.
Qed.

Lemma pad_to_bytes_post c k :
  (forall c1, J c1 -> post (k c1)) -> J c -> post (pad_to_bytes flags c k).
Proof. intros Hk HJ. unfold pad_to_bytes, read_bits. apply read_bits_post; [|exact HJ]. intros; apply Hk; assumption. Qed.

Lemma set_in_J c rest k :
  inp c = firstn k (inp c) ++ rest -> length (firstn k (inp c)) = k ->
  J c -> J (set_in c rest (ileft c - N.of_nat k)).
Proof.
  intros Hsplit Hlen (H1 & H2). unfold J. cbn [set_in mk ileft inp out pos].
  split; [|exact H2].
  rewrite H1. rewrite Hsplit at 1. rewrite app_length, Hlen. lia.
Qed.

Lemma fill_bit_buffer_J c c' : fill_bit_buffer c = Ret c' -> J c -> J c'.
Proof.
  unfold fill_bit_buffer. destruct (nb c <? 30); [|intros H; inversion H; subst; tauto].
  destruct (inp c) as [|b0 [|b1 [|b2 [|b3 rest]]]] eqn:E; try discriminate.
  destruct (push_bits _ _ _) as [c1| |] eqn:E1; cbn [bind]; try discriminate.
  intros H; inversion H; subst; clear H. intros HJ.
  eapply push_bits_J; [exact E1|].
  destruct HJ as (H1 & H2). unfold J. cbn [set_in mk ileft inp out pos].
  split; [|exact H2]. rewrite H1, E. cbn [length]. lia.
Qed.

Lemma drop_bits_J c len c' : drop_bits c len = Ret c' -> J c -> J c'.
Proof.
  unfold drop_bits, guard, csub. destruct (len <? 64); cbn [bind]; [|discriminate].
  destruct (len <=? nb c); cbn [bind]; [|discriminate].
  intros H; inversion H; subst. apply J_set_bits.
Qed.

Lemma slow_fill_J fuel : forall t c stop c1,
  slow_fill_f flags fuel t c = Ret (stop, c1) -> J c ->
  J c1 /\ (forall s, stop = Some s -> s = end_of_input flags /\ inp c1 = []).
Proof.
  induction fuel as [|fuel IH]; intros t c stop c1; cbn [slow_fill_f]; [discriminate|].
  set (temp := fast_lookup t (bb c)).
  destruct (if (0 <=? temp)%Z then _ else _) as [found| |] eqn:Ef; cbn [bind]; try discriminate.
  destruct found.
  - intros H; inversion H; subst. intros HJ. split; [exact HJ|intros s Hs; discriminate].
  - destruct (read_byte c) as [[b c0]|] eqn:Er.
    + destruct (push_bits c0 b 8) as [c2| |] eqn:Ep; cbn [bind]; try discriminate.
      intros H HJ.
      assert (HJ2 : J c2) by (eapply push_bits_J; [exact Ep|]; eapply read_byte_some; eassumption).
      destruct (15 <=? nb c2).
      * inversion H; subst. split; [exact HJ2|intros s Hs; discriminate].
      * eapply IH; eassumption.
    + intros H; inversion H; subst. intros HJ. split; [exact HJ|].
      intros s Hs; inversion Hs; subst. split; [reflexivity|apply read_byte_none, Er].
Qed.

Lemma decode_huffman_code_post c table k :
  (forall c1 sym, J c1 -> post (k c1 sym)) -> J c -> post (decode_huffman_code flags c table k).
Proof.
  intros Hk HJ. unfold decode_huffman_code.
  set (t := get_table (rr c) table).
  destruct (if nb c <? 15 then _ else _) as [[stop c1]| |] eqn:E; cbn [bind]; try exact I.
  assert (H1 : J c1 /\ (forall s, stop = Some s -> s = end_of_input flags /\ inp c1 = [])).
  { destruct (nb c <? 15).
    - destruct (ileft c <? 2).
      + eapply slow_fill_J; eassumption.
      + destruct (inp c) as [|b0 [|b1 rest]] eqn:Ei; try discriminate.
        destruct (push_bits _ _ _) as [c'| |] eqn:Ep; cbn [bind] in E; try discriminate.
        inversion E; subst. split; [|intros s Hs; discriminate].
        eapply push_bits_J; [exact Ep|].
        destruct HJ as (Ha & Hb). unfold J. cbn [set_in mk ileft inp out pos].
        split; [|exact Hb]. rewrite Ha, Ei. cbn [length]. lia.
    - inversion E; subst. split; [exact HJ|intros s Hs; discriminate]. }
  destruct H1 as [HJ1 Hstop].
  destruct stop as [s|].
  - destruct (Hstop s eq_refl) as [-> Hnil]. cbn [post]. split; [exact HJ1|apply A_end_of_input, Hnil].
  - destruct (if (0 <=? fast_lookup t (bb c1))%Z then _ else _) as [[sym code_len]| |]; cbn [bind]; try exact I.
    destruct (drop_bits c1 code_len) as [c2| |] eqn:Ed; cbn [bind]; try exact I.
    apply Hk. eapply drop_bits_J; eassumption.
Qed.

(* ---- output side *)
Lemma write_byte_J c b c' :
  write_byte c b = Ret c' -> J c -> pos c < omax -> J c' /\ pos c' = pos c + 1.
Proof.
  unfold write_byte, guard. destruct (pos c <? alen (out c)); cbn [bind]; [|discriminate].
  intros H; inversion H; subst; clear H. intros (H1 & H2 & H3 & H4 & H5 & H6) Hlt.
  split; [|reflexivity]. unfold J. cbn [set_out mk ileft inp out pos].
  rewrite alen_aset. repeat split; try assumption; try lia.
  intros i Hi. rewrite aget_aset_other by lia. apply H6. lia.
Qed.

Lemma init_tree_post fuel : forall c, J c -> post (init_tree_f fuel c).
Proof.
  induction fuel as [|fuel IH]; intros c HJ; cbn [init_tree_f]; [exact I|].
  destruct (2 <? d_block_type (rr c)).
  - cbn [post]. split; [exact HJ|apply A_end_other; discriminate].
  - destruct (build_table (rr c) (d_block_type (rr c))) as [|s|t].
    + cbn [post]. split; [exact HJ|apply A_end_other; discriminate].
    + cbn [post]. split; [apply J_set_rr, HJ|exact I].
    + destruct (d_block_type (rr c) =? 2).
      * cbn [post]. split; [apply J_set_ctr, J_set_rr, HJ|exact I].
      * destruct (d_block_type (rr c) =? 0).
        -- cbn [post]. split; [apply J_set_ctr, J_set_rr, HJ|exact I].
        -- apply IH. apply J_set_rr, HJ.
Qed.
End Frame.
