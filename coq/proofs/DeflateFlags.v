(* Facts about the regenerated flag / level / window functions and the encoder tables
   (deflate/core.rs), by kernel computation over their finite domains or by case analysis. *)
From Coq Require Import ZArith NArith List Bool Lia.
From MZ.gen Require Import GenZlib.
From MZ.gen Require GenTables.
From MZ.spec Require DeflateSpec.
From MZ.proofs Require Import ZlibHeader.
Import ListNotations.
Local Open Scope Z_scope.

(* ---- levels above 10 behave as 10 (C01) *)
Lemma flags_level_clamped level wb strat :
  10 <= level -> create_comp_flags_from_zip_params level wb strat
                = create_comp_flags_from_zip_params 10 wb strat.
Proof.
  intros H. unfold create_comp_flags_from_zip_params.
  replace (level >=? 0) with true by (symmetry; apply Z.geb_le; lia).
  replace (10 >=? 0) with true by reflexivity.
  destruct (Z.eq_dec level 10) as [->|Hne]; [reflexivity|].
  replace (level >? 10) with true by (symmetry; apply Z.gtb_lt; lia).
  replace (10 >? 10) with false by reflexivity.
  replace (level <=? 3) with false by (symmetry; apply Z.leb_gt; lia).
  replace (10 <=? 3) with false by reflexivity.
  replace (level =? 0) with false by (symmetry; apply Z.eqb_neq; lia).
  replace (10 =? 0) with false by reflexivity.
  reflexivity.
Qed.

(* ---- window_bits -> (level, strategy) -> flags (C11): below 12 bits the compressor is forced
   to one probe + run-length matches (distance 1) unless it emits no matches at all;
   12..14 bits force level <= 1 *)
Definition RLE_FLAG : Z := 65536.
Definition window_route_ok (wb lvl strat : Z) : bool :=
  let '((l, s), ok1) := limit_level_by_window_bits wb lvl strat in
  let '(flags, ok2) := create_comp_flags_from_zip_params l wb s in
  ok1 && ok2 &&
  (if wb <? 12 then
     (* no matches at all (level 0: raw blocks; Huffman-only: zero probes) or run-length with one probe *)
     (negb (Z.land flags 524288 =? 0)) || (Z.land flags 4095 =? 0)
     || ((negb (Z.land flags RLE_FLAG =? 0)) && (Z.land flags 4095 =? 1))
   else if wb <? 15 then (l <=? 1) else (l =? lvl) && (s =? strat)).

Lemma window_route_all :
  forallb (fun wb => forallb (fun lvl => forallb (fun st => window_route_ok wb lvl st) (zrange 0 5))
                             (zrange 0 11)) (zrange 0 16) = true.
Proof. vm_compute. reflexivity. Qed.

Lemma window_route wb lvl strat :
  0 <= wb <= 15 -> 0 <= lvl <= 10 -> 0 <= strat <= 4 -> window_route_ok wb lvl strat = true.
Proof.
  intros Hw Hl Hs.
  pose proof (forall_range _ _ _ window_route_all wb ltac:(cbn; lia)) as H1. cbn beta in H1.
  pose proof (forall_range _ _ _ H1 lvl ltac:(cbn; lia)) as H2. cbn beta in H2.
  exact (forall_range _ _ _ H2 strat ltac:(cbn; lia)).
Qed.

(* ---- encoder tables are inverse to the RFC 1951 tables of the specification (C10) *)
Local Open Scope N_scope.
Definition tabn (l : list N) (i : N) : N := nth (N.to_nat i) l 0.

(* what compress_lz_codes emits for a match of length i+3: (symbol, extra value, extra bits) *)
Definition enc_len (i : N) : N * N * N :=
  let nb := tabn GenTables.t_LEN_EXTRA i in
  ((N.land (tabn GenTables.t_LEN_SYM i) 31) + 256,
   N.land i (tabn GenTables.t_BITMASKS (N.land nb 7)), nb).

Definition dec_len (sym e : N) : N := tabn DeflateSpec.length_base (sym - 257) + e.

Definition len_ok (i : N) : bool :=
  let '(sym, e, nb) := enc_len i in
  (257 <=? sym) && (sym <=? 285) && (nb =? tabn DeflateSpec.length_extra (sym - 257))
  && (e <? 2 ^ nb) && (dec_len sym e =? i + 3).

Fixpoint nrange (lo : N) (n : nat) : list N :=
  match n with O => [] | S n' => lo :: nrange (lo + 1) n' end.
Lemma nrange_in n : forall lo x, lo <= x < lo + N.of_nat n -> In x (nrange lo n).
Proof.
  induction n as [|n IH]; intros lo x H; [lia|]. cbn [nrange].
  destruct (N.eq_dec lo x) as [->|Hne]; [now left|right]. apply IH. lia.
Qed.

Lemma len_tables_all : forallb len_ok (nrange 0 256) = true.
Proof. vm_compute. reflexivity. Qed.

(* distances: d = dist - 1 in 0..32767 *)
Definition enc_dist (d : N) : N * N * N :=
  let '(sym, nb) := if d <? 512
                    then (tabn GenTables.t_SMALL_DIST_SYM d, tabn GenTables.t_SMALL_DIST_EXTRA (N.shiftr d 2))
                    else (tabn GenTables.t_LARGE_DIST_SYM (N.shiftr d 8), tabn GenTables.t_LARGE_DIST_EXTRA (N.shiftr d 8)) in
  (sym, N.land d (tabn GenTables.t_BITMASKS (N.land nb 15)), nb).

Definition dist_ok (d : N) : bool :=
  let '(sym, e, nb) := enc_dist d in
  (sym <=? 29) && (nb =? tabn DeflateSpec.dist_extra sym) && (e <? 2 ^ nb)
  && (tabn DeflateSpec.dist_base sym + e =? d + 1).

Lemma dist_tables_all : forallb dist_ok (nrange 0 (N.to_nat 32768)) = true.
Proof. vm_compute. reflexivity. Qed.

Lemma len_table_inverse i : i < 256 -> len_ok i = true.
Proof.
  intros H. pose proof len_tables_all as A. rewrite forallb_forall in A.
  apply A, nrange_in. cbn. lia.
Qed.

Lemma dist_table_inverse d : d < 32768 -> dist_ok d = true.
Proof.
  intros H. pose proof dist_tables_all as A. rewrite forallb_forall in A.
  apply A, nrange_in. rewrite N2Nat.id. lia.
Qed.

(* ---- decoder tables = RFC tables (C03): the 29 / 30 live symbols *)
Lemma inflate_tables_are_rfc :
  firstn 29 GenTables.t_LENGTH_BASE = DeflateSpec.length_base /\
  firstn 29 GenTables.t_LENGTH_EXTRA = DeflateSpec.length_extra /\
  GenTables.t_DIST_BASE = DeflateSpec.dist_base /\
  GenTables.t_HUFFMAN_LENGTH_ORDER = DeflateSpec.clen_order /\
  forallb (fun s => (if s <? 4 then 0 else N.shiftr s 1 - 1) =? tabn DeflateSpec.dist_extra s) (nrange 0 30) = true.
Proof. repeat split; vm_compute; reflexivity. Qed.

(* ---- mz_deflateBound (C15) *)
Local Open Scope Z_scope.
Ltac Zify.zify_post_hook ::= Z.div_mod_to_equations.

Definition bound_formula (n : Z) : Z :=
  128 + n + n / 8 + (n / 31744 + 1) * 5.

Lemma deflate_bound_formula n :
  0 <= n < 2 ^ 56 -> mz_deflateBound tt n = (bound_formula n, true).
Proof.
  intros H. unfold mz_deflateBound, bound_formula.
  assert (P : 2 ^ 56 = 72057594037927936) by reflexivity. rewrite P in H.
  assert (Hu : forall x, 0 <= x < 18446744073709551616 -> uwrap 64 x = x)
    by (intros; unfold uwrap; apply Z.mod_small; assumption).
  change (31 * 1024) with 31744.
  rewrite (Hu 31744) by lia.
  rewrite (Z.quot_div_nonneg n 8) by lia.
  rewrite (Z.quot_div_nonneg n 31744) by lia.
  repeat match goal with |- context [uwrap 64 ?x] => rewrite (Hu x) by lia end.
  f_equal.
  unfold inrange. repeat (apply andb_true_intro; split); try (apply Z.leb_le; lia); try reflexivity.
Qed.

(* the bound dominates both terms of the formula miniz advertises, max(128+1.1n, 128+n+5(n/31744+1)),
   and allows 9 bits for every input byte on top of 5 bytes for every 31 KiB block *)
Lemma bound_dominates_miniz n :
  0 <= n -> Z.max (128 + n * 110 / 100) (128 + n + (n / 31744 + 1) * 5) <= bound_formula n.
Proof. intros H. unfold bound_formula. lia. Qed.

Lemma bound_nine_bits n :
  0 <= n -> (9 * n + 7) / 8 + 5 * (n / 31744 + 1) + 127 <= bound_formula n.
Proof. intros H. unfold bound_formula. lia. Qed.

Lemma bound_monotone n m : 0 <= n <= m -> bound_formula n <= bound_formula m.
Proof. intros H. unfold bound_formula. lia. Qed.

(* the exact size of a level-0 zlib stream (DESIGN.md, C15) is below the bound *)
Lemma level0_size_within_bound n :
  0 <= n -> 2 + n + 5 * (n / 31745 + 1) + 4 <= bound_formula n.
Proof. intros H. unfold bound_formula. lia. Qed.
