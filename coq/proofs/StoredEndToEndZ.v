(* C01/C09 at level 0 with both sides modelled, zlib framing: the decoder model M_inf, given what the
   compressor model's one-shot API produced for a zlib level-0 flag word, consumes all of it, returns
   exactly the original input and reports Done (the trailer the encoder wrote is the Adler-32 the
   decoder computes); and the same stream with any other trailer value is reported Adler32Mismatch. *)
From Coq Require Import NArith ZArith List Bool Lia Arith.
From MZ.lib Require Import Arr Bits Mach.
From MZ.spec Require Import Adler DeflateSpec Zlib.
From MZ.gen Require GenZlib.
From MZ.model Require Import DeflateCore InflateCore.
From MZ.proofs Require Import StoredSpec StoredModel StoredRoundtrip InflateStoredZ.
From MZ.proofs Require ZlibHeader.
Import ListNotations.
Local Open Scope N_scope.

Lemma hdr_valid flags wb :
  wb <= 15 -> hasf flags FLAG_ZLIB = true ->
  exists cmf flg, hdr flags wb = [cmf; flg] /\ cmf < 256 /\ flg < 256 /\
                  valid_header (Z.of_N cmf) (Z.of_N flg) = true.
Proof.
  intros Hwb Z. unfold hdr. rewrite Z.
  pose proof (ZlibHeader.header_from_flags_valid (Z.of_N flags) (Z.of_N wb) ltac:(lia)) as Hv.
  destruct (GenZlib.header_from_flags (Z.of_N flags) (Z.of_N wb)) as [[h0 h1] okf].
  destruct Hv as (_ & _ & _ & _ & _ & _ & Hc & Hf & Hval).
  exists (Z.to_N h0), (Z.to_N h1). split; [reflexivity|]. rewrite !Z2N.id by lia.
  split; [lia|]. split; [lia|exact Hval].
Qed.

(* the shape of what the compressor model emits, with an arbitrary trailer in place of the checksum *)
Definition with_trailer (out : list N) (A : N) : list N :=
  firstn (length out - 4) out ++ be32 A.

Theorem level0_zlib_model_roundtrip (data : list N) (cflags iflags : N) (out : list N) (o : arr) (A : N) (res : call_result) :
  hasf cflags FLAG_RAW = true -> hasf cflags FLAG_ZLIB = true -> bytes_ok data ->
  compress_to_vec_inner data cflags = Ret (VBytes out) ->
  has iflags F_ZLIB = true -> has iflags F_STOPBB = false -> has iflags F_NONWRAP = true ->
  N.of_nat (length data) <= alen o -> alen o <= USIZE_MAX -> A < 2 ^ 32 ->
  decompress dec_default (with_trailer out A) o 0 USIZE_MAX iflags = Ret res ->
  with_trailer out (adler32 1 data) = out /\
  cr_status res = (if has iflags F_IGNORE || (adler32 1 data =? A) then Done else Adler32Mismatch) /\
  cr_in res = N.of_nat (length out) /\
  cr_out res = N.of_nat (length data) /\ aget_list (cr_buf res) 0 (cr_out res) = data.
Proof.
  intros Hraw Hz Hbytes Hc HZ HSB HNW Hroom Hrep HA Hd.
  apply compress_to_vec_level0 in Hc; [|exact Hraw]. subst out.
  rewrite full_shape, Hz in *.
  destruct (hdr_valid cflags 15 ltac:(lia) Hz) as (cmf & flg & Eh & Hcmf & Hflg & Hval). rewrite Eh in *. cbn [app] in *.
  set (k := N.of_nat (length data) / BS) in *.
  set (chunks := map (chunk data) (seq 0 (N.to_nat k))) in *.
  set (last := skipn (N.to_nat (BS * k)) data) in *.
  pose proof (data_shape data) as Hds. fold k in Hds. fold chunks in Hds. fold last in Hds.
  pose proof (last_ok data Hbytes) as [L1 L2]. fold k in L1, L2. fold last in L1, L2.
  pose proof (chunks_ok_chunks data (N.to_nat k) Hbytes) as Hck. fold chunks in Hck.
  rewrite <- Hds in Hroom.
  assert (Hwt : forall T, with_trailer (cmf :: flg :: stored_stream chunks last ++ be32 (adler32 1 data)) T
                          = cmf :: flg :: stored_stream chunks last ++ be32 T).
  { intros T. unfold with_trailer.
    change (cmf :: flg :: stored_stream chunks last ++ be32 (adler32 1 data))
      with ((cmf :: flg :: stored_stream chunks last) ++ be32 (adler32 1 data)).
    rewrite app_length. change (length (be32 (adler32 1 data))) with 4%nat.
    rewrite Nat.add_sub, firstn_app, Nat.sub_diag, firstn_all. cbn [firstn]. rewrite app_nil_r. reflexivity. }
  rewrite Hwt in *.
  pose proof (decompress_zlib_stored_stream iflags cmf flg A chunks last o res HZ HSB HNW Hcmf Hflg Hval HA Hck L1 L2 Hroom Hrep Hd) as H.
  cbv zeta in H. rewrite Hds in H. destruct H as (H1 & H2 & H3 & H4).
  split; [reflexivity|]. split; [exact H1|]. split; [|split; assumption].
  rewrite H2. cbn [length]. rewrite !app_length. reflexivity.
Qed.
