(* C01 at level 0 on the API-level functions of the two models:
     decompress_to_vec_inner (compress_to_vec_inner data) = data
   for every input, raw and zlib - the compressor model's grow-and-retry loop, then the decoder model's
   growing-vector loop (whose first vector, twice the input length, always has room for a stored stream). *)
From Coq Require Import NArith ZArith List Bool Lia Arith.
From MZ.lib Require Import Arr Bits Mach.
From MZ.spec Require Import Adler DeflateSpec Zlib.
From MZ.model Require Import DeflateCore InflateCore InflateStream.
From MZ.proofs Require Import StoredSpec StoredModel StoredRoundtrip StoredEndToEndZ InflateStoredApi.
Import ListNotations.
Local Open Scope N_scope.

Theorem level0_api_roundtrip (data : list N) (cflags iflags0 : N) (out : list N) :
  hasf cflags FLAG_RAW = true -> bytes_ok data ->
  compress_to_vec_inner data cflags = Ret (VBytes out) ->
  has (N.lor iflags0 F_NONWRAP) F_ZLIB = hasf cflags FLAG_ZLIB ->
  has (N.lor iflags0 F_NONWRAP) F_STOPBB = false ->
  N.of_nat (length out) < 2 ^ 57 ->
  decompress_to_vec_inner out iflags0 USIZE_MAX = Ret (VOk data).
Proof.
  intros Hraw Hbytes Hc HZ HSB Hshort.
  apply compress_to_vec_level0 in Hc; [|exact Hraw]. subst out.
  rewrite full_shape in *.
  set (k := N.of_nat (length data) / BS) in *.
  set (chunks := map (chunk data) (seq 0 (N.to_nat k))) in *.
  set (last := skipn (N.to_nat (BS * k)) data) in *.
  pose proof (data_shape data) as Hds. fold k in Hds. fold chunks in Hds. fold last in Hds.
  pose proof (last_ok data Hbytes) as [L1 L2]. fold k in L1, L2. fold last in L1, L2.
  pose proof (chunks_ok_chunks data (N.to_nat k) Hbytes) as Hck. fold chunks in Hck.
  destruct (hasf cflags FLAG_ZLIB) eqn:Z.
  - destruct (hdr_valid cflags 15 ltac:(lia) Z) as (cmf & flg & Eh & Hcmf & Hflg & Hval). rewrite Eh in *. cbn [app] in *.
    pose proof (to_vec_zlib_stored_stream iflags0 cmf flg chunks last [] HZ HSB Hcmf Hflg Hval Hck L1 L2) as H.
    cbv zeta in H. rewrite Hds, app_nil_r in H. apply H. exact Hshort.
  - rewrite (hdr_nonzlib cflags 15 Z), app_nil_r in *. cbn [app] in *.
    pose proof (to_vec_raw_stored_stream iflags0 chunks last [] HZ HSB Hck L1 L2) as H.
    cbv zeta in H. rewrite Hds, app_nil_r in H. apply H. exact Hshort.
Qed.
