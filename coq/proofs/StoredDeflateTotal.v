(* The zlib-style wrapper deflate() (behind mz_deflate) at level 0 under every schedule never panics:
   companion of StoredStreamTotal.v for the loop inside deflate() and a caller of deflate(). *)
From Coq Require Import NArith ZArith List Bool Lia Arith.
From MZ.lib Require Import Arr Bits Mach.
From MZ.spec Require Import Adler DeflateSpec.
From MZ.model Require Import DeflateCore.
From MZ.proofs Require Import IterPow DeflateCounts StoredSpec StoredModel StoredStream StoredSchedules StoredDeflate
                              StoredTotal StoredStreamTotal.
Import ListNotations.
Local Open Scope N_scope.

Section D.
Variables (data : list N) (flags wb : N).
Hypothesis Hraw : hasf flags FLAG_RAW = true.
Hypothesis Hwb : wb <= 15.

Notation DGI' := (DGI data flags wb).

Definition DRnp (r : res dres) : Prop :=
  match r with
  | Panic _ => False
  | Ret DUnmodelled => False
  | Ret (DRet code ncons out c') => Dz c'
  | OutOfFuel => True
  end.

Lemma deflate_turn_np R n E f s :
  legal_mz_flush f -> DLI data flags wb R n E s -> Dz (ds_c s) ->
  match deflate_turn f s with inl s' => Dz (ds_c s') | inr r => DRnp r end.
Proof.
  intros Hf [HG Hin] HDz. unfold deflate_turn.
  destruct (legal_mz_td f Hf) as [Hlf Htd]. rewrite Htd in *.
  pose proof (compress_np2 data flags wb Hraw Hwb _ _ _ (ds_in s) E (ds_room s) f Hlf HG HDz Hin) as Hnp.
  destruct (compress (ds_c s) (ds_in s) (ds_room s) f) as [cr| |]; try exact I; try contradiction.
  destruct cr as [r|]; [|contradiction].
  unfold CRnp2 in Hnp. cbv zeta.
  destruct (r_status r); try exact Hnp.
  destruct (_ =? 0); [exact Hnp|].
  destruct (_ && _); [destruct (_ || _); exact Hnp|exact Hnp].
Qed.

Lemma deflate_np R c n E input out_len f :
  legal_mz_flush f -> DGI' R c n -> Dz c ->
  (c_finished c = false -> n <= E /\ E <= total data /\ input = slice data n E) ->
  DRnp (deflate c input out_len f).
Proof.
  intros Hf HD HDz Hin. unfold deflate.
  destruct (out_len =? 0); [exact HDz|].
  destruct (c_prev c) eqn:Ep.
  4:{ destruct (f =? 4); exact HDz. }
  all: destruct HD as [HG|[Hp _]]; [|congruence].
  all: try (destruct HG as [Hp _]; congruence).
  set (s0 := {| ds_c := c; ds_in := input; ds_room := out_len; ds_tin := 0; ds_rout := [] |}).
  assert (H0 : DLI data flags wb R n E s0 /\ Dz (ds_c s0)).
  { split; [|exact HDz]. unfold DLI, s0. cbn [ds_c ds_in ds_tin ds_rout rev]. rewrite app_nil_r, N.add_0_r. split; [exact HG|exact Hin]. }
  pose proof (iter_pow_inv (deflate_turn f) (fun s => DLI data flags wb R n E s /\ Dz (ds_c s)) DRnp) as H.
  assert (H1 : forall s s', DLI data flags wb R n E s /\ Dz (ds_c s) -> deflate_turn f s = inl s' ->
                            DLI data flags wb R n E s' /\ Dz (ds_c s')).
  { intros s s' [Hs Hz] Et. split.
    - pose proof (deflate_turn_DLI data flags wb Hraw Hwb R n E f Hf s Hs) as X. rewrite Et in X. exact X.
    - pose proof (deflate_turn_np R n E f s Hf Hs Hz) as X. rewrite Et in X. exact X. }
  assert (H2 : forall s r, DLI data flags wb R n E s /\ Dz (ds_c s) -> deflate_turn f s = inr r -> DRnp r).
  { intros s r [Hs Hz] Et. pose proof (deflate_turn_np R n E f s Hf Hs Hz) as X. rewrite Et in X. exact X. }
  specialize (H H1 H2 40%nat s0 H0).
  destruct (iter_pow 40 (deflate_turn f) s0) as [s'|rr]; [exact I|exact H].
Qed.

Theorem ddrive_np : forall sched c rest acc n,
  Forall (fun it => legal_mz_flush (snd it)) sched ->
  DGI' acc c n -> Dz c -> (c_finished c = false -> rest = skipn (N.to_nat n) data) ->
  NP (ddrive c rest sched acc n).
Proof.
  induction sched as [|[[m out_len] f] sched IH]; intros c rest acc n Hleg HD HDz Hrest; cbn [ddrive]; [exact I|].
  inversion Hleg as [|it its Hf Hl']; subst. cbn [snd] in Hf.
  assert (Hn : c_finished c = false -> n <= total data).
  { intros Hnf. destruct HD as [[_ [(A & HBI & _ & Hn & _)|[Hfin _]]]|[_ (Hn & _)]]; [|congruence|exact Hn].
    destruct HBI as (_ & Hle & _). lia. }
  assert (Hpre : c_finished c = false ->
                 n <= N.min (n + m) (total data) /\ N.min (n + m) (total data) <= total data /\
                 firstn (N.to_nat m) rest = slice data n (N.min (n + m) (total data))).
  { intros Hnf. specialize (Hn Hnf). split; [lia|]. split; [lia|].
    rewrite (Hrest Hnf). unfold slice. rewrite firstn_min, skipn_length. f_equal. unfold total in *. lia. }
  pose proof (deflate_np acc c n _ _ out_len f Hf HD HDz Hpre) as Hnp.
  destruct (deflate c (firstn (N.to_nat m) rest) out_len f) as [d| |] eqn:Ed; cbn [bind]; try exact I; try contradiction.
  destruct d as [code ncons o c'|]; [|contradiction].
  pose proof (deflate_DGI data flags wb Hraw Hwb acc c n _ _ out_len f _ Hf HD Hpre Ed) as Hp.
  pose proof (deflate_consumed wb Hwb _ _ _ _ _ _ _ _ Ed) as Hcons.
  unfold dpost in Hp. unfold DRnp in Hnp.
  destruct (code =? D_MZ_STREAM_END)%Z; [exact I|].
  destruct ((code =? D_MZ_OK)%Z || (code =? D_MZ_ERR_BUF)%Z); [|exact I].
  apply (IH c' _ _ _ Hl' Hp Hnp).
  intros Hnf'.
  assert (Hcf : c_finished c = false).
  { destruct (c_finished c) eqn:Hfin; [|reflexivity].
    rewrite (deflate_keeps_finished _ _ _ _ _ _ _ _ Hfin Ed) in Hnf'. discriminate. }
  rewrite (Hrest Hcf), skipn_skipn_add. f_equal. lia.
Qed.

End D.

Theorem level0_every_deflate_schedule_never_panics (data : list N) (flags wb : N) sched :
  hasf flags FLAG_RAW = true -> wb <= 15 ->
  Forall (fun it => legal_mz_flush (snd it)) sched ->
  match ddrive (comp_new flags wb) data sched [] 0 with Panic _ => False | _ => True end.
Proof.
  intros Hraw Hwb Hleg.
  apply (ddrive_np data flags wb Hraw Hwb sched (comp_new flags wb) data [] 0 Hleg).
  - left. apply (GI2_init data flags wb).
  - unfold Dz, comp_new. cbn. lia.
  - intros _. reflexivity.
Qed.
