(* Level 0 (TDEFL_FORCE_ALL_RAW_BLOCKS) of the compressor model emits exactly a sequence of
   byte-aligned stored blocks carrying the input, 31745 bytes per block: model side of the
   level-0 round trip. *)
From Coq Require Import NArith ZArith List Bool Lia Arith.
From MZ.lib Require Import Arr Bits Mach.
From MZ.spec Require Import Adler DeflateSpec.
From MZ.gen Require GenTables GenZlib.
From MZ.model Require Import DeflateCore.
From MZ.proofs Require Import IterPow StoredSpec DeflateCounts.
From MZ.proofs Require ZlibHeader.
Import ListNotations.
Local Open Scope N_scope.

(* ------------------------------------------------------------------ the bit writer from a byte boundary *)
Definition aligned (o : obuf) : Prop := ob_bb o = 0 /\ ob_bits o = 0.

Definition push (o : obuf) (l : list N) : obuf :=
  {| ob_rev := rev l ++ ob_rev o; ob_n := ob_n o + N.of_nat (length l); ob_bb := 0; ob_bits := 0 |}.

Lemma aligned_push o l : aligned (push o l).
Proof. split; reflexivity. Qed.

Lemma push_push o l l' : push (push o l) l' = push o (l ++ l').
Proof.
  unfold push. cbn [ob_rev ob_n]. f_equal.
  - rewrite rev_app_distr, app_assoc. reflexivity.
  - rewrite app_length. lia.
Qed.

Lemma push_nil o : aligned o -> push o [] = o.
Proof. destruct o as [r n bb bi]. unfold aligned, push. cbn. intros [-> ->]. f_equal. lia. Qed.

Lemma shiftr8_small v : v < 256 -> N.shiftr v 8 = 0.
Proof. intros H. rewrite N.shiftr_div_pow2. apply N.div_small. exact H. Qed.

Lemma ofb_step f o :
  ob_flush_bytes (S f) o =
  if 8 <=? ob_bits o then
    _ <- guard (ob_n o <? OUT_CAP) 301 ;;
    ob_flush_bytes f {| ob_rev := (ob_bb o mod 256) :: ob_rev o; ob_n := ob_n o + 1;
                        ob_bb := N.shiftr (ob_bb o) 8; ob_bits := ob_bits o - 8 |}
  else Ret o.
Proof. reflexivity. Qed.

Lemma ofb_done f o : ob_bits o < 8 -> ob_flush_bytes f o = Ret o.
Proof.
  intros H. destruct f; cbn [ob_flush_bytes];
  (replace (8 <=? ob_bits o) with false by (symmetry; apply N.leb_gt; exact H)); reflexivity.
Qed.

Lemma put_from_aligned r n v len :
  len < 32 -> v < 2 ^ len ->
  put_bits {| ob_rev := r; ob_n := n; ob_bb := 0; ob_bits := 0 |} v len
  = ob_flush_bytes 8 {| ob_rev := r; ob_n := n; ob_bb := v; ob_bits := len |}.
Proof.
  intros Hl Hv. unfold put_bits, put_bits_no_flush, guard. cbn [ob_rev ob_n ob_bb ob_bits].
  replace (len <? 32) with true by (symmetry; apply N.ltb_lt; exact Hl). cbn [bind].
  replace (v <=? N.ones len) with true by (symmetry; apply N.leb_le; rewrite N.ones_equiv; lia). cbn [bind].
  rewrite N.shiftl_0_r, N.lor_0_l, N.add_0_l.
  assert (2 ^ len <= 2 ^ 31) by (apply N.pow_le_mono_r; lia).
  rewrite (N.mod_small v U32) by (unfold U32; change (2 ^ 31) with 2147483648 in *; lia).
  reflexivity.
Qed.

Lemma put8 o v o' : aligned o -> v < 256 -> put_bits o v 8 = Ret o' -> o' = push o [v].
Proof.
  destruct o as [r n bb bi]. unfold aligned. cbn [ob_bb ob_bits]. intros [-> ->] Hv.
  rewrite put_from_aligned by (change (2 ^ 8) with 256; lia).
  rewrite ofb_step. cbn [ob_rev ob_n ob_bb ob_bits]. change (8 <=? 8) with true. cbv iota.
  unfold guard. destruct (n <? OUT_CAP); cbn [bind]; [|discriminate].
  rewrite ofb_done by (cbn [ob_bits]; lia).
  rewrite shiftr8_small, N.mod_small by assumption.
  intros H; inversion H; subst; clear H. reflexivity.
Qed.

Lemma put16 o v o' : aligned o -> v < 65536 -> put_bits o v 16 = Ret o' -> o' = push o (le16 v).
Proof.
  destruct o as [r n bb bi]. unfold aligned. cbn [ob_bb ob_bits]. intros [-> ->] Hv.
  rewrite put_from_aligned by (change (2 ^ 16) with 65536; lia).
  rewrite ofb_step. cbn [ob_rev ob_n ob_bb ob_bits]. change (8 <=? 16) with true. cbv iota.
  unfold guard. destruct (n <? OUT_CAP); cbn [bind]; [|discriminate].
  rewrite ofb_step. cbn [ob_rev ob_n ob_bb ob_bits]. change (8 <=? 16 - 8) with true. cbv iota.
  destruct (n + 1 <? OUT_CAP); cbn [bind]; [|discriminate].
  rewrite ofb_done by (cbn [ob_bits]; lia).
  rewrite !N.shiftr_div_pow2. change (2 ^ 8) with 256.
  rewrite N.div_div by lia. change (256 * 256) with 65536.
  rewrite (N.div_small v 65536) by exact Hv.
  intros H; inversion H; subst; clear H. unfold push, le16. cbn [rev app length ob_rev ob_n].
  change (N.of_nat 2) with 2. f_equal. lia.
Qed.

(* the three header bits of a stored block and the padding to the byte boundary *)
Lemma put_block_header o f o1 o2 o3 :
  aligned o -> f <= 1 ->
  put_bits o f 1 = Ret o1 -> put_bits o1 0 2 = Ret o2 -> ob_pad_to_bytes o2 = Ret o3 ->
  o3 = push o [f].
Proof.
  destruct o as [r n bb bi]. unfold aligned. cbn [ob_bb ob_bits]. intros [-> ->] Hf.
  rewrite put_from_aligned by (change (2 ^ 1) with 2; lia).
  rewrite ofb_done by (cbn [ob_bits]; lia).
  intros H; inversion H; subst o1; clear H.
  unfold put_bits at 1, put_bits_no_flush, guard. cbn [ob_rev ob_n ob_bb ob_bits bind].
  change (2 <? 32) with true. change (0 <=? N.ones 2) with true. cbn [bind].
  rewrite N.shiftl_0_l, N.lor_0_r, (N.mod_small f U32) by (unfold U32; lia).
  rewrite ofb_done by (cbn [ob_bits]; lia).
  intros H; inversion H; subst o2; clear H.
  unfold ob_pad_to_bytes, csub, put_bits, put_bits_no_flush, guard. cbn [ob_rev ob_n ob_bb ob_bits bind].
  change (negb (3 =? 0)) with true. cbv iota. change (3 <=? 8) with true. cbn [bind]. change (8 - 3) with 5.
  change (5 <? 32) with true. cbn [bind]. change (0 <=? N.ones 5) with true. cbn [bind].
  rewrite ?N.shiftl_0_l, ?N.lor_0_r, ?(N.mod_small f U32) by (unfold U32; lia).
  change (3 + 5) with 8.
  rewrite ofb_step. cbn [ob_rev ob_n ob_bb ob_bits]. change (8 <=? 8) with true. cbv iota.
  unfold guard. destruct (n <? OUT_CAP); cbn [bind]; [|discriminate].
  rewrite ofb_done by (cbn [ob_bits]; lia).
  rewrite shiftr8_small, N.mod_small by lia.
  intros H; inversion H; subst; clear H. reflexivity.
Qed.

Lemma pad_aligned o o' : aligned o -> ob_pad_to_bytes o = Ret o' -> o' = o.
Proof.
  intros [_ Hb]. unfold ob_pad_to_bytes. rewrite Hb. cbn. intros H; inversion H; reflexivity.
Qed.

Lemma write_bytes_push o l o' : aligned o -> write_bytes o l = Ret o' -> o' = push o l.
Proof.
  destruct o as [r n bb bi]. unfold aligned. cbn [ob_bb ob_bits]. intros [-> ->].
  unfold write_bytes, guard. cbn [ob_bits ob_n ob_rev ob_bb]. change (0 =? 0) with true. cbn [bind].
  destruct (_ <=? OUT_CAP); cbn [bind]; [|discriminate].
  intros H; inversion H; subst. unfold push. cbn [ob_rev ob_n]. rewrite rev_append_rev. reflexivity.
Qed.

(* ------------------------------------------------------------------ the dictionary *)
Definition dat (data : list N) (j : N) : N := nth (N.to_nat j) data 0.

Definition dict_inv (d : arr) (data : list N) (lo hi : N) : Prop :=
  forall j, lo <= j < hi -> aget d (N.land j DMASK) = dat data j.

Lemma land_dmask j : N.land j DMASK = j mod 32768.
Proof. change DMASK with (N.ones 15). rewrite N.land_ones. reflexivity. Qed.

Lemma dict_put_old bytes : forall d pos i,
  i < 32768 ->
  (forall k, k < N.of_nat (length bytes) -> N.land (pos + k) DMASK <> i) ->
  aget (dict_put d pos bytes) i = aget d i.
Proof.
  induction bytes as [|b bytes IH]; intros d pos i Hi Hne; cbn [dict_put]; [reflexivity|].
  rewrite IH; [|exact Hi|].
  - assert (H0 : N.land pos DMASK <> i) by (specialize (Hne 0); rewrite N.add_0_r in Hne; apply Hne; cbn [length]; lia).
    destruct (N.land pos DMASK <? C_MAX_MATCH - 1).
    + rewrite aget_aset_other.
      * apply aget_aset_other. exact H0.
      * unfold C_DICT_SIZE. lia.
    + apply aget_aset_other. exact H0.
  - intros k Hk. replace (pos + 1 + k) with (pos + (k + 1)) by lia. apply Hne. cbn [length]. lia.
Qed.

Lemma dict_put_new bytes : forall d pos k,
  N.of_nat (length bytes) <= 32768 -> (k < length bytes)%nat ->
  aget (dict_put d pos bytes) (N.land (pos + N.of_nat k) DMASK) = nth k bytes 0.
Proof.
  induction bytes as [|b bytes IH]; intros d pos k Hl Hk; cbn [length] in *; [lia|].
  cbn [dict_put]. destruct k as [|k].
  - cbn [nth]. rewrite N.add_0_r.
    rewrite dict_put_old.
    + destruct (N.land pos DMASK <? C_MAX_MATCH - 1).
      * rewrite aget_aset_other; [apply aget_aset_same|].
        rewrite land_dmask. pose proof (N.mod_lt pos 32768 ltac:(lia)). unfold C_DICT_SIZE. lia.
      * apply aget_aset_same.
    + rewrite land_dmask. apply N.mod_lt. lia.
    + intros j Hj. rewrite !land_dmask.
      intros E.
      pose proof (N.div_mod (pos + 1 + j) 32768 ltac:(lia)) as D1.
      pose proof (N.div_mod pos 32768 ltac:(lia)) as D2.
      pose proof (N.mod_lt pos 32768 ltac:(lia)) as L2.
      rewrite E in D1.
      assert ((pos + 1 + j) / 32768 = pos / 32768 \/ (pos + 1 + j) / 32768 >= pos / 32768 + 1) by lia.
      lia.
  - cbn [nth]. replace (pos + N.of_nat (S k)) with (pos + 1 + N.of_nat k) by lia.
    apply IH; lia.
Qed.

Lemma dict_put_inv d data lo hi bytes :
  dict_inv d data lo hi -> lo <= hi ->
  hi + N.of_nat (length bytes) - lo <= 32768 ->
  (forall k, (k < length bytes)%nat -> nth k bytes 0 = dat data (hi + N.of_nat k)) ->
  dict_inv (dict_put d hi bytes) data lo (hi + N.of_nat (length bytes)).
Proof.
  intros Hinv Hlo Hspan Hb j Hj.
  destruct (N.lt_ge_cases j hi) as [Hold|Hnew].
  - rewrite dict_put_old.
    + apply Hinv. lia.
    + rewrite land_dmask. apply N.mod_lt. lia.
    + intros k Hk. rewrite !land_dmask. intros E.
      pose proof (N.div_mod (hi + k) 32768 ltac:(lia)) as D1.
      pose proof (N.div_mod j 32768 ltac:(lia)) as D2.
      pose proof (N.mod_lt j 32768 ltac:(lia)) as L2.
      rewrite E in D1.
      assert ((hi + k) / 32768 = j / 32768 \/ (hi + k) / 32768 >= j / 32768 + 1 \/ (hi + k) / 32768 + 1 <= j / 32768) by lia.
      lia.
  - replace j with (hi + N.of_nat (N.to_nat (j - hi))) by lia.
    rewrite dict_put_new by lia. apply Hb. lia.
Qed.

Lemma dict_inv_weaken d data lo hi lo' hi' :
  dict_inv d data lo hi -> lo <= lo' -> hi' <= hi -> dict_inv d data lo' hi'.
Proof. intros H A B j Hj. apply H. lia. Qed.

Lemma nth_dict_range d s len k :
  s < 32768 -> len < 32768 -> (k < N.to_nat len)%nat ->
  nth k (dict_range d s len) 0 = aget d (N.land (s + N.of_nat k) DMASK).
Proof.
  intros Hs Hl Hk. unfold dict_range. rewrite !land_dmask. unfold C_DICT_SIZE.
  destruct (N.lt_ge_cases (s + len) 32768) as [Hn|Hw].
  - rewrite (N.mod_small (s + len)) by exact Hn.
    rewrite (N.mod_small (s + N.of_nat k)) by lia.
    replace (s <? s + len) with true by (symmetry; apply N.ltb_lt; lia).
    unfold aget_list. rewrite nth_aget_list_nat by lia. reflexivity.
  - assert (E : (s + len) mod 32768 = s + len - 32768).
    { symmetry. apply (N.mod_unique _ _ 1); lia. }
    rewrite E.
    replace (s <? s + len - 32768) with false by (symmetry; apply N.ltb_ge; lia).
    replace (0 <? len) with true by (symmetry; apply N.ltb_lt; lia).
    unfold aget_list.
    destruct (Nat.lt_ge_cases k (N.to_nat (32768 - s))) as [H1|H2].
    + rewrite app_nth1 by (rewrite length_aget_list_nat; exact H1).
      rewrite nth_aget_list_nat by exact H1.
      rewrite (N.mod_small (s + N.of_nat k)) by lia. reflexivity.
    + rewrite app_nth2 by (rewrite length_aget_list_nat; exact H2).
      rewrite length_aget_list_nat. rewrite nth_aget_list_nat by lia.
      f_equal. rewrite N.add_0_l. apply (N.mod_unique _ _ 1); lia.
Qed.

Lemma length_dict_range d s len :
  s < 32768 -> len < 32768 -> length (dict_range d s len) = N.to_nat len.
Proof.
  intros Hs Hl. unfold dict_range. rewrite !land_dmask. unfold C_DICT_SIZE.
  destruct (N.lt_ge_cases (s + len) 32768) as [Hn|Hw].
  - rewrite (N.mod_small (s + len)) by exact Hn.
    destruct (s <? s + len) eqn:E.
    + unfold aget_list. rewrite length_aget_list_nat. lia.
    + apply N.ltb_ge in E. replace (0 <? len) with false by (symmetry; apply N.ltb_ge; lia).
      cbn [length]. lia.
  - assert (E : (s + len) mod 32768 = s + len - 32768).
    { symmetry. apply (N.mod_unique _ _ 1); lia. }
    rewrite E.
    replace (s <? s + len - 32768) with false by (symmetry; apply N.ltb_ge; lia).
    replace (0 <? len) with true by (symmetry; apply N.ltb_lt; lia).
    unfold aget_list. rewrite app_length, !length_aget_list_nat. lia.
Qed.

Lemma nth_firstn_lt {A} (d : A) : forall (l : list A) n k, (k < n)%nat -> nth k (firstn n l) d = nth k l d.
Proof.
  induction l as [|x l IH]; intros n k H.
  - rewrite firstn_nil. reflexivity.
  - destruct n as [|n]; [lia|]. destruct k as [|k]; cbn [firstn nth]; [reflexivity|]. apply IH. lia.
Qed.

Lemma nth_skipn_add {A} (d : A) : forall (l : list A) n k, nth k (skipn n l) d = nth (n + k) l d.
Proof.
  induction l as [|x l IH]; intros n k.
  - rewrite skipn_nil. destruct k, n; reflexivity.
  - destruct n as [|n]; cbn [skipn plus nth]; [reflexivity|]. apply IH.
Qed.

Lemma skipn_skipn_add {A} : forall (l : list A) n m, skipn n (skipn m l) = skipn (m + n) l.
Proof.
  induction l as [|x l IH]; intros n m.
  - rewrite !skipn_nil. reflexivity.
  - destruct m as [|m]; cbn [skipn plus]; [reflexivity|]. apply IH.
Qed.

Lemma dict_range_data d data lo len :
  dict_inv d data lo (lo + len) -> len < 32768 -> lo + len <= N.of_nat (length data) ->
  dict_range d (N.land lo DMASK) len = firstn (N.to_nat len) (skipn (N.to_nat lo) data).
Proof.
  intros Hinv Hl Hd.
  assert (Hs : N.land lo DMASK < 32768) by (rewrite land_dmask; apply N.mod_lt; lia).
  apply (nth_ext _ _ 0 0).
  - rewrite length_dict_range by assumption. rewrite firstn_length, skipn_length. lia.
  - rewrite length_dict_range by assumption. intros k Hk.
    rewrite nth_dict_range by assumption.
    rewrite !land_dmask, N.add_mod_idemp_l by lia. rewrite <- land_dmask.
    rewrite Hinv by lia. unfold dat.
    rewrite nth_firstn_lt by exact Hk.
    rewrite nth_skipn_add. f_equal. lia.
Qed.

(* ------------------------------------------------------------------ flush_block on the raw path *)
Lemma lor_shift8_mod h0 h1 : h0 < 256 -> N.lor h0 (N.shiftl h1 8) mod 256 = h0.
Proof.
  intros H. change 256 with (2 ^ 8). rewrite <- N.land_ones, N.land_lor_distr_l.
  rewrite (N.land_ones h0), N.mod_small by exact H.
  rewrite N.land_ones, N.shiftl_mul_pow2, N.mod_mul by (change (2 ^ 8) with 256; lia).
  apply N.lor_0_r.
Qed.

Lemma lor_shift8_shr h0 h1 : h0 < 256 -> N.shiftr (N.lor h0 (N.shiftl h1 8)) 8 = h1.
Proof.
  intros H. rewrite N.shiftr_lor, shiftr8_small by exact H.
  rewrite N.shiftr_shiftl_l, N.sub_diag, N.shiftl_0_r by lia. apply N.lor_0_l.
Qed.

Lemma put_hdr o h0 h1 o' :
  aligned o -> h0 < 256 -> h1 < 256 ->
  put_bits (put_bits_no_flush o h0 8) h1 8 = Ret o' -> o' = push o [h0; h1].
Proof.
  destruct o as [r n bb bi]. unfold aligned. cbn [ob_bb ob_bits]. intros [-> ->] H0 H1.
  unfold put_bits, put_bits_no_flush, guard. cbn [ob_rev ob_n ob_bb ob_bits].
  change (8 <? 32) with true. cbn [bind].
  destruct (h1 <=? N.ones 8); cbn [bind]; [|discriminate].
  rewrite N.shiftl_0_r, N.lor_0_l, N.add_0_l, (N.mod_small h0 U32) by (unfold U32; lia).
  assert (Hlt : N.lor h0 (N.shiftl h1 8) < U32).
  { assert (N.lor h0 (N.shiftl h1 8) < 2 ^ 16); [|unfold U32; change (2 ^ 16) with 65536 in *; lia].
    destruct (N.eq_dec (N.lor h0 (N.shiftl h1 8)) 0) as [E|E]; [rewrite E; reflexivity|].
    apply N.log2_lt_pow2; [lia|]. rewrite N.log2_lor.
    apply N.max_lub_lt.
    - destruct (N.eq_dec h0 0) as [->|]; [reflexivity|]. apply N.log2_lt_pow2; [lia|change (2 ^ 16) with 65536; lia].
    - destruct (N.eq_dec h1 0) as [->|]; [reflexivity|].
      rewrite N.log2_shiftl by assumption.
      assert (N.log2 h1 < 8) by (apply N.log2_lt_pow2; [lia|exact H1]). lia. }
  rewrite (N.mod_small _ U32) by exact Hlt.
  rewrite ofb_step. cbn [ob_rev ob_n ob_bb ob_bits]. change (8 <=? 8 + 8) with true. cbv iota.
  unfold guard. destruct (n <? OUT_CAP); cbn [bind]; [|discriminate].
  rewrite ofb_step. cbn [ob_rev ob_n ob_bb ob_bits]. change (8 <=? 8 + 8 - 8) with true. cbv iota.
  destruct (n + 1 <? OUT_CAP); cbn [bind]; [|discriminate].
  rewrite ofb_done by (cbn [ob_bits]; lia).
  rewrite lor_shift8_mod, lor_shift8_shr, (N.mod_small h1 256), shiftr8_small by assumption.
  intros H; inversion H; subst; clear H. unfold push. cbn [rev app length ob_rev ob_n].
  change (N.of_nat 2) with 2. f_equal. lia.
Qed.

Definition hdr (flags wb : N) : list N :=
  if hasf flags FLAG_ZLIB then
    let '((h0, h1), _) := GenZlib.header_from_flags (Z.of_N flags) (Z.of_N wb) in [Z.to_N h0; Z.to_N h1]
  else [].

Lemma lnot16 tb : tb < 65536 -> N.land (N.lxor tb 4294967295) 65535 = 65535 - tb.
Proof.
  intros H. change 4294967295 with (N.ones 32). change 65535 with (N.ones 16).
  assert (Hlog : tb <> 0 -> N.log2 tb < 16) by (intros; apply N.log2_lt_pow2; [lia|exact H]).
  transitivity (N.lnot tb 16).
  - apply N.bits_inj. intros n. unfold N.lnot. rewrite N.land_spec, !N.lxor_spec.
    destruct (N.lt_ge_cases n 16) as [Hn|Hn].
    + rewrite !N.ones_spec_low by lia. rewrite andb_true_r. reflexivity.
    + rewrite (N.ones_spec_high 16) by lia. rewrite andb_false_r, xorb_false_r.
      destruct (N.eq_dec tb 0) as [->|Hz]; [rewrite N.bits_0; reflexivity|].
      symmetry. apply N.bits_above_log2. specialize (Hlog Hz). lia.
  - apply N.lnot_sub_low. destruct (N.eq_dec tb 0) as [->|Hz]; [reflexivity|apply Hlog; exact Hz].
Qed.

Definition block_bytes (c : comp) (flush : N) : list N :=
  (if hasf (c_flags c) FLAG_ZLIB && (c_block_index c =? 0) then hdr (c_flags c) (c_wbits c) else []) ++
  stored_block (flush =? TF_FINISH) (dict_range (c_dict c) (N.land (c_cbdp c) DMASK) (c_total_bytes c)) ++
  (if (flush =? TF_FINISH) && hasf (c_flags c) FLAG_ZLIB then be32 (c_adler c) else []).

Definition after_block (c : comp) : comp :=
  mkc (c_flags c) (c_wbits c) (c_block_index c + 1) (c_flush c) (c_pending c) (c_finished c)
      (c_adler c) (c_prev c) 0 0 (c_saved_match_len c) (c_dict c)
      (c_cbdp c + c_total_bytes c) (c_la_size c) (c_la_pos c) (c_dsize c) 0.

Lemma flush_block_raw c cb flush r :
  hasf (c_flags c) FLAG_RAW = true -> c_sbuf c = 0 -> c_sbits c = 0 -> c_wbits c <= 15 ->
  flush = TF_NONE \/ flush = TF_FINISH ->
  (0 <? c_total_bytes c) || (flush =? TF_FINISH) = true ->
  c_total_bytes c < 32768 -> c_adler c < 2 ^ 32 ->
  flush_block c cb flush = Ret r ->
  c_pending c = [] /\
  r = let '(n, c2, cb2) := flush_output (after_block c) cb (block_bytes c flush) in FbOk n c2 cb2.
Proof.
  intros Hraw Hsb Hsn Hwb Hfl Hblk Htb Had.
  unfold flush_block. rewrite Hsb, Hsn, Hraw, Hblk.
  set (o0 := {| ob_rev := []; ob_n := 0; ob_bb := 0; ob_bits := 0 |}).
  assert (A0 : aligned o0) by (split; reflexivity).
  (* header *)
  assert (Hh : forall o1,
    (if hasf (c_flags c) FLAG_ZLIB && (c_block_index c =? 0)
     then let '(h0, h1, _) := GenZlib.header_from_flags (Z.of_N (c_flags c)) (Z.of_N (c_wbits c)) in
          put_bits (put_bits_no_flush o0 (Z.to_N h0) 8) (Z.to_N h1) 8
     else Ret o0) = Ret o1 ->
    o1 = push o0 (if hasf (c_flags c) FLAG_ZLIB && (c_block_index c =? 0) then hdr (c_flags c) (c_wbits c) else [])).
  { intros o1. unfold hdr. destruct (hasf (c_flags c) FLAG_ZLIB); cbn [andb].
    - destruct (c_block_index c =? 0).
      + pose proof (ZlibHeader.header_from_flags_valid (Z.of_N (c_flags c)) (Z.of_N (c_wbits c)) ltac:(lia)) as Hv.
        destruct (GenZlib.header_from_flags (Z.of_N (c_flags c)) (Z.of_N (c_wbits c))) as [[h0 h1] okf].
        destruct Hv as (_ & _ & _ & _ & _ & _ & Hc & Hf & _).
        intros E. apply put_hdr in E; [exact E|exact A0|lia|lia].
      + intros E; inversion E. symmetry. apply push_nil. exact A0.
    - intros E; inversion E. symmetry. apply push_nil. exact A0. }
  match goal with |- bind ?X _ = _ -> _ => destruct X as [o1| |] eqn:E1 end; cbn [bind]; try discriminate.
  specialize (Hh o1 eq_refl). clear E1. rename Hh into E1.
  set (hb := if hasf (c_flags c) FLAG_ZLIB && (c_block_index c =? 0) then hdr (c_flags c) (c_wbits c) else []) in *.
  assert (A1 : aligned o1) by (subst o1; apply aligned_push).
  unfold csub. destruct (c_cbdp c <=? c_la_pos c); cbn [bind]; [|discriminate].
  unfold guard.
  match goal with |- context [Bool.eqb ?u true] => destruct u eqn:Eu end; cbn [Bool.eqb bind]; [|discriminate].
  destruct (c_pending c) as [|p ps] eqn:Ep; cbn [bind]; [|discriminate].
  cbn [negb bind]. intros H. split; [reflexivity|].
  match type of H with bind ?X _ = _ => destruct X as [o2| |] eqn:E2 end; cbn [bind] in H; try discriminate.
  match type of E2 with bind ?X _ = _ => destruct X as [oa| |] eqn:Ea end; cbn [bind] in E2; try discriminate.
  match type of E2 with bind ?X _ = _ => destruct X as [ob| |] eqn:Eb end; cbn [bind] in E2; try discriminate.
  match type of E2 with bind ?X _ = _ => destruct X as [oc| |] eqn:Ec end; cbn [bind] in E2; try discriminate.
  assert (Hoc : oc = push o1 [if flush =? TF_FINISH then 1 else 0]).
  { eapply put_block_header; [exact A1| |exact Ea|exact Eb|exact Ec]. destruct (flush =? TF_FINISH); lia. }
  match type of E2 with bind ?X _ = _ => destruct X as [od| |] eqn:Ed end; cbn [bind] in E2; try discriminate.
  match type of E2 with bind ?X _ = _ => destruct X as [oe| |] eqn:Ee end; cbn [bind] in E2; try discriminate.
  match type of E2 with bind ?X _ = _ => destruct X as [of| |] eqn:Ef end; cbn [bind] in E2; try discriminate.
  inversion E2; subst o2; clear E2.
  assert (Htb16 : c_total_bytes c < 65536) by lia.
  change 65535 with (N.ones 16) in Ed at 1. rewrite N.land_ones, N.mod_small in Ed by (change (2 ^ 16) with 65536; lia).
  rewrite lnot16 in Ee by exact Htb16.
  apply put16 in Ed; [|subst oc; apply aligned_push|lia].
  apply put16 in Ee; [|subst od; apply aligned_push|lia].
  apply write_bytes_push in Ef; [|subst oe; apply aligned_push].
  set (chunk := dict_range (c_dict c) (N.land (c_cbdp c) DMASK) (c_total_bytes c)) in *.
  assert (Hlen : N.of_nat (length chunk) = c_total_bytes c).
  { unfold chunk. rewrite length_dict_range; [lia| |exact Htb]. rewrite land_dmask. apply N.mod_lt. lia. }
  assert (Hof : of = push o0 (hb ++ stored_block (flush =? TF_FINISH) chunk)).
  { subst of oe od oc o1. rewrite !push_push. f_equal. f_equal. unfold stored_block. rewrite Hlen.
    cbn [app]. destruct (flush =? TF_FINISH); reflexivity. }
  clear Ea Eb Ec Ed Ee Ef Hoc.
  (* trailer *)
  match type of H with bind ?X _ = _ => destruct X as [og| |] eqn:Eg end; cbn [bind] in H; try discriminate.
  assert (Hog : og = push o0 (block_bytes c flush)).
  { unfold block_bytes. fold hb. fold chunk.
    destruct Hfl as [-> | ->].
    - change (TF_NONE =? TF_FINISH) with false in *. cbn [andb] in *.
      change (TF_NONE =? TF_PARTIAL) with false in Eg. change (TF_NONE =? TF_PARTIAL_OPT) with false in Eg.
      change ((TF_NONE =? TF_SYNC) || (TF_NONE =? TF_FULL)) with false in Eg.
      change (TF_NONE =? TF_SYNC_OPT) with false in Eg. cbv iota in Eg.
      inversion Eg; subst og. rewrite Hof, app_nil_r. reflexivity.
    - change (TF_FINISH =? TF_FINISH) with true in *. cbn [andb] in *. cbv iota in Eg.
      match type of Eg with bind ?X _ = _ => destruct X as [oh| |] eqn:Eh end; cbn [bind] in Eg; try discriminate.
      apply pad_aligned in Eh; [|subst of; apply aligned_push]. subst oh.
      destruct (hasf (c_flags c) FLAG_ZLIB).
      + match type of Eg with bind ?X _ = _ => destruct X as [oi| |] eqn:Ei end; cbn [bind] in Eg; try discriminate.
        match type of Eg with bind ?X _ = _ => destruct X as [oj| |] eqn:Ej end; cbn [bind] in Eg; try discriminate.
        match type of Eg with bind ?X _ = _ => destruct X as [ok| |] eqn:Ek end; cbn [bind] in Eg; try discriminate.
        apply put8 in Ei; [|subst of; apply aligned_push|apply N.mod_lt; lia].
        apply put8 in Ej; [|subst oi; apply aligned_push|apply N.mod_lt; lia].
        apply put8 in Ek; [|subst oj; apply aligned_push|apply N.mod_lt; lia].
        apply put8 in Eg; [|subst ok; apply aligned_push|apply N.mod_lt; lia].
        subst og ok oj oi of. rewrite !push_push, <- !app_assoc. reflexivity.
      + inversion Eg; subst og. rewrite Hof, app_nil_r. reflexivity. }
  subst og. cbn [push ob_bb ob_bits ob_rev o0] in H.
  rewrite app_nil_r, rev_append_rev, app_nil_r, rev_involutive in H.
  unfold after_block. rewrite Ep.
  destruct (flush_output _ cb (block_bytes c flush)) as [[n c2] cb2].
  inversion H; subst; reflexivity.
Qed.

(* ------------------------------------------------------------------ what level 0 emits *)
Definition BS : N := 31745.

Definition chunk (data : list N) (i : nat) : list N :=
  firstn (N.to_nat BS) (skipn (i * N.to_nat BS) data).

Fixpoint encs (data : list N) (k : nat) : list N :=
  match k with
  | O => []
  | S k' => encs data k' ++ stored_block false (chunk data k')
  end.

Section Run.
Variables (data : list N) (flags wb : N).
Hypothesis Hraw : hasf flags FLAG_RAW = true.
Hypothesis Hwb : wb <= 15.

Definition total : N := N.of_nat (length data).

Definition enc (k : N) : list N :=
  if k =? 0 then [] else hdr flags wb ++ encs data (N.to_nat k).

Lemma hdr_nonzlib : hasf flags FLAG_ZLIB = false -> hdr flags wb = [].
Proof. unfold hdr. intros ->. reflexivity. Qed.

Lemma enc_succ k :
  enc (k + 1) = enc k ++ (if hasf flags FLAG_ZLIB && (k =? 0) then hdr flags wb else []) ++
                stored_block false (chunk data (N.to_nat k)).
Proof.
  unfold enc. replace (k + 1 =? 0) with false by (symmetry; apply N.eqb_neq; lia).
  replace (N.to_nat (k + 1)) with (S (N.to_nat k)) by lia. cbn [encs].
  destruct (k =? 0) eqn:E.
  - apply N.eqb_eq in E. subst k. cbn [N.to_nat encs app]. rewrite andb_true_r.
    destruct (hasf flags FLAG_ZLIB) eqn:Z; [reflexivity|]. rewrite hdr_nonzlib by exact Z. reflexivity.
  - rewrite andb_false_r. cbn [app]. rewrite <- app_assoc. reflexivity.
Qed.

(* fields of the compressor that stay put while a stream is being produced *)
Definition cfix (A : N) (c : comp) : Prop :=
  c_flags c = flags /\ c_wbits c = wb /\ c_sbuf c = 0 /\ c_sbits c = 0 /\ c_finished c = false /\ c_adler c = A.

(* the state between two phases of a call; cb is the call's output buffer, R what earlier calls delivered *)
Definition BI (R : list N) (A : N) (c : comp) (cb : cbout) : Prop :=
  cfix A c /\
  c_la_pos c + c_la_size c <= total /\
  c_la_pos c = c_cbdp c + c_total_bytes c /\ c_cbdp c = BS * c_block_index c /\
  c_total_bytes c < BS /\ c_la_size c <= 257 /\
  dict_inv (c_dict c) data (c_cbdp c) (c_la_pos c + c_la_size c) /\
  (exists len w ofs, cb = CBuf len w ofs) /\
  R ++ cb_written cb ++ c_pending c = enc (c_block_index c).

(* the engine's loop state *)
Definition SI (R : list N) (A C0 : N) (s : sstate) : Prop :=
  let c := s_c s in
  cfix A c /\ c_flush c = TF_FINISH /\ c_pending c = [] /\
  s_in s = skipn (N.to_nat (s_lp s + s_ls s)) data /\
  s_inleft s = N.of_nat (length (s_in s)) /\
  s_lp s + s_ls s + s_inleft s = total /\
  s_lp s + s_ls s = C0 + s_src s /\
  s_lp s = c_cbdp c + s_bw s /\ c_cbdp c = BS * c_block_index c /\
  s_bw s < BS /\ s_ls s <= 257 /\
  dict_inv (c_dict c) data (c_cbdp c) (s_lp s + s_ls s) /\
  (exists len w ofs, s_cb s = CBuf len w ofs) /\
  R ++ cb_written (s_cb s) = enc (c_block_index c).

Lemma cfix_set_la A c d ls lp ds tb : cfix A c -> cfix A (set_la c d ls lp ds tb).
Proof. unfold cfix, set_la. cbn. tauto. Qed.

Lemma firstn_skipn_dat hi n k :
  (k < n)%nat -> nth k (firstn n (skipn (N.to_nat hi) data)) 0 = dat data (hi + N.of_nat k).
Proof.
  intros H. rewrite nth_firstn_lt by exact H. rewrite nth_skipn_add. unfold dat. f_equal. lia.
Qed.

Lemma chunk_at k :
  firstn (N.to_nat BS) (skipn (N.to_nat (BS * k)) data) = chunk data (N.to_nat k).
Proof. unfold chunk. f_equal. f_equal. lia. Qed.

(* the bytes of one in-loop block flush *)
Lemma block_bytes_none c :
  c_flags c = flags -> c_wbits c = wb -> c_total_bytes c = BS -> c_cbdp c = BS * c_block_index c ->
  dict_inv (c_dict c) data (c_cbdp c) (c_cbdp c + BS) -> c_cbdp c + BS <= total ->
  block_bytes c TF_NONE =
  (if hasf flags FLAG_ZLIB && (c_block_index c =? 0) then hdr flags wb else []) ++
  stored_block false (chunk data (N.to_nat (c_block_index c))).
Proof.
  intros Hf Hw Ht Hc Hd Hle. unfold block_bytes. rewrite Hf, Hw, Ht.
  change (TF_NONE =? TF_FINISH) with false. cbn [andb]. rewrite app_nil_r.
  rewrite (dict_range_data _ data); [|exact Hd|unfold BS; lia|exact Hle].
  rewrite Hc, chunk_at. reflexivity.
Qed.

(* delivering the bytes of one block into the call's buffer *)
Lemma flush_output_vout c len w ofs bytes n c' cb' :
  c_pending c = [] -> bytes <> [] ->
  flush_output c (CBuf len w ofs) bytes = (n, c', cb') ->
  cb_written cb' ++ c_pending c' = cb_written (CBuf len w ofs) ++ bytes /\
  (exists w' ofs', cb' = CBuf len w' ofs') /\
  n = Z.of_N (N.of_nat (length (c_pending c'))) /\
  (c' = c \/ exists later, later <> [] /\ c' = set_pending c later).
Proof.
  intros Hp Hb. unfold flush_output.
  destruct (N.of_nat (length bytes) =? 0) eqn:E.
  { apply N.eqb_eq in E. destruct bytes; [contradiction|cbn [length] in E; lia]. }
  destruct (ntake bytes (len - ofs)) as [[now later] k] eqn:Et.
  apply ntake_spec in Et. destruct Et as (E1 & E2 & E3).
  intros H; inversion H; subst n c' cb'; clear H.
  cbn [cb_written]. rewrite !rev_append_rev, !app_nil_r, rev_app_distr, rev_involutive.
  destruct later as [|x later].
  - rewrite Hp, !app_nil_r in *. subst bytes. repeat split; eauto.
  - cbn [set_pending mkc c_pending]. subst bytes. rewrite <- app_assoc.
    repeat split; eauto. right. exists (x :: later). split; [discriminate|reflexivity].
Qed.

(* ---- one turn of the stored engine *)
Arguments N.add : simpl never.
Arguments N.sub : simpl never.
Arguments N.mul : simpl never.
Arguments N.min : simpl never.
Arguments N.ltb : simpl never.
Arguments N.leb : simpl never.
Arguments N.eqb : simpl never.

Lemma stored_turn_SI_inl R A C0 s s' :
  A < 2 ^ 32 -> SI R A C0 s -> stored_turn s = inl s' -> SI R A C0 s'.
Proof.
  intros HA HSI.
  destruct HSI as (Hfix & Hfl & Hpe & Hin & Hil & Hsum & Hsrc & Hlp & Hcb & Hbw & Hls & Hd & Hcbuf & Hout).
  unfold stored_turn. cbv zeta. rewrite Hfl.
  change (TF_FINISH =? TF_NONE) with false. cbn [negb andb].
  destruct ((0 <? s_inleft s) || negb (s_ls s =? 0)) eqn:Econd; [|discriminate].
  destruct (csub C_MAX_MATCH (s_ls s) 320) as [room| |] eqn:Er; try discriminate.
  assert (Hroom : room = 258 - s_ls s).
  { unfold csub, C_MAX_MATCH in Er. destruct (s_ls s <=? 258); inversion Er; reflexivity. }
  set (n := N.min (s_inleft s) room).
  assert (Hn1 : n <= s_inleft s) by (unfold n; lia).
  assert (Hn2 : s_ls s + n <= 258) by (unfold n; lia).
  set (bytes := firstn (N.to_nat n) (s_in s)).
  assert (Hblen : N.of_nat (length bytes) = n).
  { unfold bytes. rewrite firstn_length. lia. }
  set (d := dict_put (c_dict (s_c s)) (s_lp s + s_ls s) bytes).
  assert (Hd' : dict_inv d data (c_cbdp (s_c s)) (s_lp s + s_ls s + n)).
  { rewrite <- Hblen. unfold d. apply dict_put_inv; [exact Hd|lia|unfold BS in *; lia|].
    intros k Hk. unfold bytes. rewrite Hin. apply firstn_skipn_dat. lia. }
  destruct (csub (s_ls s + n) 1 321) as [ls1| |] eqn:El; try discriminate.
  assert (Hls1 : ls1 = s_ls s + n - 1 /\ 1 <= s_ls s + n).
  { unfold csub in El. destruct (1 <=? s_ls s + n) eqn:E; inversion El. apply N.leb_le in E. lia. }
  destruct Hls1 as [-> Hpos].
  assert (Hrest : skipn (N.to_nat n) (s_in s) = skipn (N.to_nat (s_lp s + 1 + (s_ls s + n - 1))) data).
  { rewrite Hin, skipn_skipn_add. f_equal. lia. }
  assert (Hrl : N.of_nat (length (skipn (N.to_nat n) (s_in s))) = s_inleft s - n).
  { rewrite skipn_length. lia. }
  destruct (31744 <? s_bw s + 1) eqn:Ebw.
  - (* the block is full: flush it *)
    apply N.ltb_lt in Ebw. assert (Hbw1 : s_bw s + 1 = BS) by (unfold BS in *; lia).
    set (c1 := set_la (s_c s) d (s_ls s + n - 1) (s_lp s + 1) _ (s_bw s + 1)).
    destruct Hfix as (F1 & F2 & F3 & F4 & F5 & F6).
    destruct (flush_block c1 (s_cb s) TF_NONE) as [fb| |] eqn:Ef; try discriminate.
    apply flush_block_raw in Ef;
      [|cbn; rewrite F1; exact Hraw|cbn; exact F3|cbn; exact F4|cbn; rewrite F2; exact Hwb|left; reflexivity
       |cbn [c1 set_la mkc c_total_bytes]; rewrite Hbw1; reflexivity|cbn [c1 set_la mkc c_total_bytes]; unfold BS in *; lia
       |cbn [c1 set_la mkc c_adler]; rewrite F6; exact HA].
    destruct Ef as [_ Ef].
    destruct Hcbuf as (len & w & ofs & Ecb). rewrite Ecb in Ef.
    assert (Hbb : block_bytes c1 TF_NONE =
                  (if hasf flags FLAG_ZLIB && (c_block_index (s_c s) =? 0) then hdr flags wb else []) ++
                  stored_block false (chunk data (N.to_nat (c_block_index (s_c s))))).
    { change (c_block_index (s_c s)) with (c_block_index c1).
      apply block_bytes_none; unfold c1; cbn [set_la mkc c_flags c_wbits c_total_bytes c_cbdp c_block_index c_dict];
        try assumption.
      - eapply dict_inv_weaken; [exact Hd'|lia|lia].
      - lia. }
    destruct (flush_output (after_block c1) (CBuf len w ofs) (block_bytes c1 TF_NONE)) as [[nn c2] cb2] eqn:Efo.
    assert (Hne : block_bytes c1 TF_NONE <> []).
    { rewrite Hbb. intros X. apply app_eq_nil in X. destruct X as [_ X]. unfold stored_block in X. discriminate X. }
    apply flush_output_vout in Efo; [|exact Hpe|exact Hne].
    destruct Efo as (Ev & (w' & ofs' & Ecb2) & Enn & Ec2).
    subst fb.
    destruct (negb (nn =? 0)%Z) eqn:Enz; [discriminate|].
    intros H; inversion H; subst s'; clear H.
    assert (Hp2 : c_pending c2 = []).
    { apply negb_false_iff, Z.eqb_eq in Enz. rewrite Enn in Enz. destruct (c_pending c2); [reflexivity|cbn [length] in Enz; lia]. }
    assert (Hc2 : c2 = after_block c1).
    { destruct Ec2 as [E|(later & Hl & E)]; [exact E|]. rewrite E in Hp2. cbn in Hp2. contradiction. }
    rewrite Hp2, app_nil_r in Ev.
    unfold SI. cbn [s_c s_cb s_in s_inleft s_src s_bw s_ls s_lp].
    rewrite Hc2. cbn [after_block c1 set_la mkc c_flags c_wbits c_sbuf c_sbits c_finished c_adler c_flush c_pending
                        c_cbdp c_block_index c_dict c_total_bytes].
    repeat split; try assumption; try lia.
    + eapply dict_inv_weaken; [exact Hd'|lia|lia].
    + eauto.
    + rewrite Ev, <- Ecb, app_assoc, Hout, Hbb. symmetry. apply enc_succ.
  - (* no flush *)
    apply N.ltb_ge in Ebw.
    intros H; inversion H; subst s'; clear H.
    destruct Hfix as (F1 & F2 & F3 & F4 & F5 & F6).
    unfold SI, cfix. cbn [s_c s_cb s_in s_inleft s_src s_bw s_ls s_lp].
    cbn [set_la mkc c_flags c_wbits c_sbuf c_sbits c_finished c_adler c_flush c_pending
         c_cbdp c_block_index c_dict c_total_bytes].
    repeat split; try assumption; try (unfold BS in *; lia).
    eapply dict_inv_weaken; [exact Hd'|lia|lia].
Qed.

Definition SQ (R : list N) (A C0 : N) (r : res stres) : Prop :=
  match r with
  | Ret (SRet ok c cb src) =>
      ok = true /\ BI R A c cb /\ c_flush c = TF_FINISH /\
      c_la_pos c + c_la_size c = C0 + src /\
      (c_pending c = [] -> c_la_size c = 0 /\ c_la_pos c = total)
  | _ => True
  end.

Lemma stored_turn_SI_inr R A C0 s r :
  A < 2 ^ 32 -> SI R A C0 s -> stored_turn s = inr r -> SQ R A C0 r.
Proof.
  intros HA HSI.
  destruct HSI as (Hfix & Hfl & Hpe & Hin & Hil & Hsum & Hsrc & Hlp & Hcb & Hbw & Hls & Hd & Hcbuf & Hout).
  destruct Hfix as (F1 & F2 & F3 & F4 & F5 & F6).
  unfold stored_turn. cbv zeta. rewrite Hfl.
  change (TF_FINISH =? TF_NONE) with false. cbn [negb andb].
  destruct ((0 <? s_inleft s) || negb (s_ls s =? 0)) eqn:Econd.
  2:{ (* the loop is over: no input left and the look-ahead is empty *)
      apply orb_false_iff in Econd. destruct Econd as [E1 E2].
      apply N.ltb_ge in E1. apply negb_false_iff, N.eqb_eq in E2.
      intros H; inversion H; subst r; clear H. unfold SQ, BI, cfix.
      cbn [set_la mkc c_flags c_wbits c_sbuf c_sbits c_finished c_adler c_flush c_pending
           c_cbdp c_block_index c_dict c_total_bytes c_la_pos c_la_size].
      rewrite Hpe, app_nil_r, E2 in *. rewrite N.add_0_r in *.
      repeat split; try assumption; try lia. }
  destruct (csub C_MAX_MATCH (s_ls s) 320) as [room| |] eqn:Er; try (intros H; inversion H; exact I).
  assert (Hroom : room = 258 - s_ls s).
  { unfold csub, C_MAX_MATCH in Er. destruct (s_ls s <=? 258); inversion Er; reflexivity. }
  set (n := N.min (s_inleft s) room).
  assert (Hn1 : n <= s_inleft s) by (unfold n; lia).
  assert (Hn2 : s_ls s + n <= 258) by (unfold n; lia).
  set (bytes := firstn (N.to_nat n) (s_in s)).
  assert (Hblen : N.of_nat (length bytes) = n).
  { unfold bytes. rewrite firstn_length. lia. }
  set (d := dict_put (c_dict (s_c s)) (s_lp s + s_ls s) bytes).
  assert (Hd' : dict_inv d data (c_cbdp (s_c s)) (s_lp s + s_ls s + n)).
  { rewrite <- Hblen. unfold d. apply dict_put_inv; [exact Hd|lia|unfold BS in *; lia|].
    intros k Hk. unfold bytes. rewrite Hin. apply firstn_skipn_dat. lia. }
  destruct (csub (s_ls s + n) 1 321) as [ls1| |] eqn:El; try (intros H; inversion H; exact I).
  assert (Hls1 : ls1 = s_ls s + n - 1 /\ 1 <= s_ls s + n).
  { unfold csub in El. destruct (1 <=? s_ls s + n) eqn:E; inversion El. apply N.leb_le in E. lia. }
  destruct Hls1 as [-> Hpos].
  destruct (31744 <? s_bw s + 1) eqn:Ebw; [|discriminate].
  apply N.ltb_lt in Ebw. assert (Hbw1 : s_bw s + 1 = BS) by (unfold BS in *; lia).
  set (c1 := set_la (s_c s) d (s_ls s + n - 1) (s_lp s + 1) _ (s_bw s + 1)).
  destruct (flush_block c1 (s_cb s) TF_NONE) as [fb| |] eqn:Ef; try (intros H; inversion H; exact I).
  apply flush_block_raw in Ef;
    [|cbn; rewrite F1; exact Hraw|cbn; exact F3|cbn; exact F4|cbn; rewrite F2; exact Hwb|left; reflexivity
     |unfold c1; cbn [set_la mkc c_total_bytes]; rewrite Hbw1; reflexivity|unfold c1; cbn [set_la mkc c_total_bytes]; unfold BS in *; lia
     |unfold c1; cbn [set_la mkc c_adler]; rewrite F6; exact HA].
  destruct Ef as [_ Ef].
  destruct Hcbuf as (len & w & ofs & Ecb). rewrite Ecb in Ef.
  assert (Hbb : block_bytes c1 TF_NONE =
                (if hasf flags FLAG_ZLIB && (c_block_index (s_c s) =? 0) then hdr flags wb else []) ++
                stored_block false (chunk data (N.to_nat (c_block_index (s_c s))))).
  { change (c_block_index (s_c s)) with (c_block_index c1).
    apply block_bytes_none; unfold c1; cbn [set_la mkc c_flags c_wbits c_total_bytes c_cbdp c_block_index c_dict];
      try assumption.
    - eapply dict_inv_weaken; [exact Hd'|lia|lia].
    - lia. }
  destruct (flush_output (after_block c1) (CBuf len w ofs) (block_bytes c1 TF_NONE)) as [[nn c2] cb2] eqn:Efo.
  assert (Hne : block_bytes c1 TF_NONE <> []).
  { rewrite Hbb. intros X. apply app_eq_nil in X. destruct X as [_ X]. unfold stored_block in X. discriminate X. }
  apply flush_output_vout in Efo; [|exact Hpe|exact Hne].
  destruct Efo as (Ev & (w' & ofs' & Ecb2) & Enn & Ec2).
  subst fb.
  destruct (negb (nn =? 0)%Z) eqn:Enz; [|discriminate].
  intros H; inversion H; subst r; clear H.
  apply negb_true_iff, Z.eqb_neq in Enz.
  assert (Hpn : c_pending c2 <> []) by (intros X; rewrite X in Enn; cbn in Enn; lia).
  assert (Hc2 : exists later, later <> [] /\ c2 = set_pending (after_block c1) later).
  { destruct Ec2 as [E|E]; [|exact E]. rewrite E in Hpn. exfalso. apply Hpn. exact Hpe. }
  destruct Hc2 as (later & Hl & Hc2).
  unfold SQ, BI, cfix. rewrite Hc2.
  unfold c1. cbn [set_pending after_block set_la mkc c_flags c_wbits c_sbuf c_sbits c_finished c_adler c_flush c_pending
                  c_cbdp c_block_index c_dict c_total_bytes c_la_pos c_la_size].
  rewrite Hc2 in Ev. cbn [set_pending mkc c_pending] in Ev.
  repeat split; try assumption; try lia; try (match goal with X : later = [] |- _ => contradiction end).
  - eapply dict_inv_weaken; [exact Hd'|lia|lia].
  - eauto.
  - rewrite Ev, <- Ecb, app_assoc, Hout, Hbb. symmetry. apply enc_succ.
Qed.

(* ---- the whole engine call *)
Lemma compress_stored_post R A c cb input :
  A < 2 ^ 32 -> BI R A c cb -> c_flush c = TF_FINISH -> c_pending c = [] ->
  input = skipn (N.to_nat (c_la_pos c + c_la_size c)) data ->
  forall r, compress_stored c cb input = r -> SQ R A (c_la_pos c + c_la_size c) r.
Proof.
  intros HA HBI Hfl Hpe Hin r. unfold compress_stored.
  set (s0 := {| s_c := c; s_cb := cb; s_in := input; s_inleft := N.of_nat (length input); s_src := 0;
               s_bw := c_total_bytes c; s_ls := c_la_size c; s_lp := c_la_pos c |}).
  destruct HBI as (Hfix & Hle & Hlp & Hcb & Htb & Hls & Hd & Hcbuf & Hout).
  assert (H0 : SI R A (c_la_pos c + c_la_size c) s0).
  { unfold SI, s0. cbn [s_c s_cb s_in s_inleft s_src s_bw s_ls s_lp].
    rewrite Hpe, app_nil_r in Hout. destruct Hfix as (F1 & F2 & F3 & F4 & F5 & F6). unfold cfix.
    repeat split; try assumption; try lia.
    subst input. rewrite skipn_length. unfold total in *. lia. }
  pose proof (iter_pow_inv stored_turn (SI R A (c_la_pos c + c_la_size c)) (SQ R A (c_la_pos c + c_la_size c))
                (fun s s' => stored_turn_SI_inl R A _ s s' HA) (fun s r => stored_turn_SI_inr R A _ s r HA) 40%nat s0 H0) as H.
  destruct (iter_pow 40 stored_turn s0) as [s'|rr]; intros <-; [exact I|exact H].
Qed.

(* ---- draining pending output into the call's buffer *)
Lemma fob_vout c len w ofs st c' cb' :
  flush_output_buffer c (CBuf len w ofs) = (st, c', cb') ->
  cb_written cb' ++ c_pending c' = cb_written (CBuf len w ofs) ++ c_pending c /\
  (exists w' ofs', cb' = CBuf len w' ofs') /\
  c' = set_pending c (c_pending c') /\
  st = (if c_finished c && match c_pending c' with [] => true | _ => false end then TDone else TOkay).
Proof.
  unfold flush_output_buffer.
  destruct (ntake (c_pending c) (len - ofs)) as [[now later] k] eqn:Et.
  apply ntake_spec in Et. destruct Et as (E1 & E2 & E3).
  intros H; inversion H; subst st c' cb'; clear H.
  cbn [cb_written set_pending mkc c_pending c_finished].
  rewrite !rev_append_rev, !app_nil_r, rev_app_distr, rev_involutive, E3, <- app_assoc.
  repeat split; eauto.
Qed.

Definition FULL : list N :=
  let k := total / BS in
  hdr flags wb ++ encs data (N.to_nat k) ++ stored_block true (skipn (N.to_nat (BS * k)) data) ++
  (if hasf flags FLAG_ZLIB then be32 (adler32 1 data) else []).

Lemma enc_final k X :
  enc k ++ (if hasf flags FLAG_ZLIB && (k =? 0) then hdr flags wb else []) ++ X =
  hdr flags wb ++ encs data (N.to_nat k) ++ X.
Proof.
  unfold enc. destruct (k =? 0) eqn:E.
  - apply N.eqb_eq in E. subst k. cbn [N.to_nat encs app]. rewrite andb_true_r.
    destruct (hasf flags FLAG_ZLIB) eqn:Z; [reflexivity|]. rewrite hdr_nonzlib by exact Z. reflexivity.
  - rewrite andb_false_r. cbn [app]. rewrite <- app_assoc. reflexivity.
Qed.

(* the state between two calls of compress(.., Finish) *)
Definition GI (R : list N) (c : comp) : Prop :=
  c_prev c = TOkay /\
  ((exists A, BI R A c (CBuf 0 [] 0) /\ adler_valid A /\
              (hasf flags FLAG_ZLIB = true -> A = adler32 1 (firstn (N.to_nat (c_la_pos c + c_la_size c)) data)))
   \/ (c_finished c = true /\ R ++ c_pending c = FULL)).

Definition call_post (R : list N) (input : list N) (r : cresult) : Prop :=
  match r_status r with
  | TOkay => GI (R ++ r_out r) (r_comp r) /\
             (c_finished (r_comp r) = false ->
              skipn (N.to_nat (r_in r)) input = skipn (N.to_nat (c_la_pos (r_comp r) + c_la_size (r_comp r))) data)
  | TDone => R ++ r_out r = FULL
  | _ => True
  end.

(* a call that only drains pending output *)
Lemma drain_post R c c0 input out_len st c' cb' :
  GI R c -> c0 = set_flush c TF_FINISH ->
  (c_finished c = false -> input = skipn (N.to_nat (c_la_pos c + c_la_size c)) data) ->
  flush_output_buffer c0 (CBuf out_len [] 0) = (st, c', cb') ->
  call_post R input {| r_status := st; r_in := 0; r_out := cb_written cb'; r_comp := set_prev c' st; r_cb := cb' |}.
Proof.
  intros [Hprev HG] -> Hin Hf.
  apply fob_vout in Hf. destruct Hf as (Ev & (w' & ofs' & Ecb) & Ec' & Est).
  cbn [cb_written rev_append app] in Ev.
  cbn [set_flush mkc c_pending c_finished] in Ev, Est.
  unfold call_post. cbn [r_status r_in r_out r_comp].
  destruct HG as [(A & HBI & HA & Had)|[Hfin Hfull]].
  - (* still producing blocks *)
    destruct HBI as (Hfix & Hle & Hlp & Hcb & Htb & Hls & Hd & Hcbuf & Hout).
    destruct Hfix as (F1 & F2 & F3 & F4 & F5 & F6).
    rewrite F5 in Est. cbn [andb] in Est. subst st.
    split.
    + split; [rewrite Ec'; reflexivity|]. left. exists A. split; [|split; [exact HA|]].
      * rewrite Ec'. unfold BI, cfix.
        cbn [set_prev set_pending set_flush mkc c_flags c_wbits c_sbuf c_sbits c_finished c_adler c_la_pos c_la_size
             c_cbdp c_total_bytes c_block_index c_dict c_pending cb_written rev_append app].
        repeat split; try assumption; eauto.
        cbn [cb_written rev_append app] in Hout. rewrite <- app_assoc, Ev. exact Hout.
      * rewrite Ec'. cbn [set_prev set_pending set_flush mkc c_la_pos c_la_size]. exact Had.
    + intros _. rewrite Ec'. cbn [set_prev set_pending set_flush mkc c_la_pos c_la_size skipn N.to_nat].
      apply Hin. exact F5.
  - rewrite Hfin in Est. cbn [andb] in Est.
    destruct (c_pending c') as [|x later] eqn:Ep; subst st.
    + rewrite app_nil_r in Ev. rewrite Ev. exact Hfull.
    + split.
      * split; [rewrite Ec'; reflexivity|]. right. rewrite Ec'.
        cbn [set_prev set_pending set_flush mkc c_finished c_pending]. split; [exact Hfin|].
        rewrite <- app_assoc, Ev. exact Hfull.
      * rewrite Ec'. cbn [set_prev set_pending set_flush mkc c_finished]. rewrite Hfin. discriminate.
Qed.

Lemma firstn_skipn_firstn {A} (l : list A) a b :
  firstn a l ++ firstn b (skipn a l) = firstn (a + b) l.
Proof.
  revert l; induction a as [|a IH]; intros l; [reflexivity|].
  destruct l as [|x l]; cbn [firstn skipn plus app].
  - rewrite firstn_nil. reflexivity.
  - rewrite IH. reflexivity.
Qed.

Lemma block_bytes_finish c A :
  c_flags c = flags -> c_wbits c = wb -> c_adler c = A -> c_cbdp c = BS * c_block_index c ->
  c_total_bytes c < BS -> c_cbdp c + c_total_bytes c = total ->
  dict_inv (c_dict c) data (c_cbdp c) total ->
  (hasf flags FLAG_ZLIB = true -> A = adler32 1 data) ->
  enc (c_block_index c) ++ block_bytes c TF_FINISH = FULL.
Proof.
  intros Hf Hw Ha Hc Ht Hsum Hd Had. unfold block_bytes, FULL. rewrite Hf, Hw, Ha.
  change (TF_FINISH =? TF_FINISH) with true. cbn [andb].
  rewrite enc_final.
  assert (Hk : total / BS = c_block_index c).
  { symmetry. apply (N.div_unique total BS (c_block_index c) (c_total_bytes c)); [exact Ht|lia]. }
  rewrite Hk. f_equal. f_equal.
  rewrite (dict_range_data _ data); [|rewrite Hsum; exact Hd|unfold BS in *; lia|unfold total in *; lia].
  rewrite <- Hc.
  rewrite firstn_all2 by (rewrite skipn_length; unfold total in *; lia).
  f_equal. destruct (hasf flags FLAG_ZLIB) eqn:Z; [|reflexivity]. rewrite (Had eq_refl). reflexivity.
Qed.

Lemma adler_valid_lt A : adler_valid A -> A < 2 ^ 32.
Proof.
  unfold adler_valid, ADLER_MOD. intros [H1 H2]. change (2 ^ 32) with 4294967296.
  pose proof (N.div_mod A 65536 ltac:(lia)). lia.
Qed.

Theorem compress_GI R c input out_len r :
  GI R c ->
  (c_finished c = false -> input = skipn (N.to_nat (c_la_pos c + c_la_size c)) data) ->
  compress c input out_len TF_FINISH = Ret (CRet r) -> call_post R input r.
Proof.
  intros HGI Hin. pose proof HGI as [Hprev HG].
  unfold compress, compress_inner. rewrite Hprev.
  change (TF_FINISH =? TF_FINISH) with true. rewrite orb_true_r. cbn [negb orb].
  set (c0 := set_flush c TF_FINISH).
  set (cb0 := CBuf out_len [] 0).
  assert (Hdrain : forall st c' cb', flush_output_buffer c0 cb0 = (st, c', cb') ->
            call_post R input {| r_status := st; r_in := 0; r_out := cb_written cb'; r_comp := set_prev c' st; r_cb := cb' |}).
  { intros st c' cb' Hf. eapply drain_post; [exact HGI|reflexivity|exact Hin|exact Hf]. }
  change (c_pending c0) with (c_pending c). change (c_finished c0) with (c_finished c).
  change (c_flags c0) with (c_flags c).
  destruct HG as [(A & HBI & HAv & Had)|[Hfin Hfull]].
  2:{ rewrite Hfin, orb_true_r.
      destruct (flush_output_buffer c0 cb0) as [[st c'] cb'].
      intros H; inversion H; subst r; clear H. apply Hdrain. reflexivity. }
  pose proof (adler_valid_lt A HAv) as HA.
  pose proof HBI as (Hfix & Hle & Hlp & Hcb & Htb & Hls & Hd & Hcbuf & Hout).
  destruct Hfix as (F1 & F2 & F3 & F4 & F5 & F6).
  rewrite F5, orb_false_r.
  destruct (c_pending c) as [|p ps] eqn:Hpe; cbn [negb].
  2:{ destruct (flush_output_buffer c0 cb0) as [[st c'] cb'].
      intros H; inversion H; subst r; clear H. apply Hdrain. reflexivity. }
  clear Hdrain.
  rewrite F1, Hraw. cbn [negb].
  assert (HBI0 : BI R A c0 cb0).
  { unfold BI, cfix, c0, cb0.
    cbn [set_flush mkc c_flags c_wbits c_sbuf c_sbits c_finished c_adler c_la_pos c_la_size
         c_cbdp c_total_bytes c_block_index c_dict c_pending cb_written rev_append app].
    try rewrite Hpe. cbn [cb_written rev_append app] in Hout. try rewrite Hpe in Hout.
    repeat split; try assumption; eauto. }
  specialize (Hin F5).
  pose proof (compress_stored_post R A c0 cb0 input HA HBI0 eq_refl Hpe Hin _ eq_refl) as HS.
  change (c_la_pos c0 + c_la_size c0) with (c_la_pos c + c_la_size c) in HS.
  destruct (compress_stored c0 cb0 input) as [sr| |]; cbn [bind]; try discriminate.
  destruct sr as [ok c1 cb1 src|]; [|discriminate].
  destruct HS as (Hok & HBI1 & Hfl1 & Hsrc & Hend). subst ok.
  pose proof HBI1 as (Hfix1 & Hle1 & Hlp1 & Hcb1 & Htb1 & Hls1 & Hd1 & Hcbuf1 & Hout1).
  destruct Hfix1 as (G1 & G2 & G3 & G4 & G5 & G6).
  (* the running checksum *)
  set (A' := if hasf flags FLAG_ZLIB || hasf flags FLAG_ADLER then adler32 A (firstn (N.to_nat src) input) else A).
  assert (HAv' : adler_valid A').
  { unfold A'. destruct (_ || _); [|exact HAv]. apply adler32_valid. exact HAv. }
  assert (Had' : hasf flags FLAG_ZLIB = true -> A' = adler32 1 (firstn (N.to_nat (c_la_pos c1 + c_la_size c1)) data)).
  { intros Z. unfold A'. rewrite Z. cbn [orb]. rewrite (Had Z), Hin, adler32_app by exact adler_valid_1.
    rewrite firstn_skipn_firstn. f_equal. f_equal. lia. }
  set (c2 := if hasf (c_flags c1) FLAG_ZLIB || hasf (c_flags c1) FLAG_ADLER
             then set_adler c1 (adler32 (c_adler c1) (firstn (N.to_nat src) input)) else c1).
  assert (HBI2 : BI R A' c2 cb1 /\ c_flush c2 = TF_FINISH /\ c_pending c2 = c_pending c1 /\
                 c_la_pos c2 = c_la_pos c1 /\ c_la_size c2 = c_la_size c1 /\ c_prev c2 = c_prev c1).
  { unfold c2, A'. rewrite G1, G6. destruct (_ || _).
    - unfold BI, cfix.
      cbn [set_adler mkc c_flags c_wbits c_sbuf c_sbits c_finished c_adler c_la_pos c_la_size c_flush c_prev
           c_cbdp c_total_bytes c_block_index c_dict c_pending].
      repeat split; try assumption.
    - repeat split; try assumption. }
  destruct HBI2 as (HBI2 & Hfl2 & Hpe2 & Hlp2 & Hls2 & Hprev2).
  clearbody c2.
  rewrite Hfl2, Hls2, Hpe2.
  change (TF_FINISH =? TF_NONE) with false. cbn [negb andb].
  destruct HBI2 as (Gfix & Hle2 & Hlp2' & Hcb2 & Htb2 & Hls2' & Hd2 & (len1 & w1 & ofs1 & Ecb1) & Hout2).
  destruct Gfix as (K1 & K2 & K3 & K4 & K5 & K6).
  assert (Hsk : skipn (N.to_nat src) input = skipn (N.to_nat (c_la_pos c1 + c_la_size c1)) data).
  { rewrite Hin, skipn_skipn_add. f_equal. lia. }
  match goal with |- bind (if ?b then _ else _) _ = _ -> _ => destruct b eqn:Efin end.
  - (* everything has been taken in: the last block and the trailer *)
    apply andb_true_iff in Efin. destruct Efin as [E1 E2].
    apply N.eqb_eq in E1. apply negb_true_iff, orb_false_iff in E2. destruct E2 as [E2 E3].
    apply negb_false_iff in E3. destruct (c_pending c1) as [|? ?] eqn:Hp1; [|discriminate]. clear E3.
    destruct (Hend eq_refl) as [_ Hlast].
    destruct (flush_block c2 cb1 TF_FINISH) as [fb| |] eqn:Efb; cbn [bind]; try discriminate.
    apply flush_block_raw in Efb;
      [|rewrite K1; exact Hraw|exact K3|exact K4|rewrite K2; exact Hwb|right; reflexivity|apply orb_true_r
       |unfold BS in *; lia|rewrite K6; apply adler_valid_lt; exact HAv'].
    destruct Efb as [_ Efb]. rewrite Ecb1 in Efb.
    destruct (flush_output (after_block c2) (CBuf len1 w1 ofs1) (block_bytes c2 TF_FINISH)) as [[n c3] cb3] eqn:Efo.
    assert (Hne : block_bytes c2 TF_FINISH <> []).
    { unfold block_bytes. intros X. apply app_eq_nil in X. destruct X as [_ X]. apply app_eq_nil in X.
      destruct X as [X _]. unfold stored_block in X. discriminate X. }
    apply flush_output_vout in Efo; [|exact Hpe2|exact Hne].
    destruct Efo as (Ev & (w3 & ofs3 & Ecb3) & Enn & Ec3).
    subst fb.
    replace (n <? 0)%Z with false by (symmetry; apply Z.ltb_ge; rewrite Enn; lia).
    assert (Hfl3 : c_flush c3 = TF_FINISH).
    { destruct Ec3 as [->|(later & _ & ->)]; cbn; exact Hfl2. }
    rewrite Hfl3. change (TF_FINISH =? TF_FINISH) with true.
    change (c_flush (set_finished c3 true)) with (c_flush c3). rewrite Hfl3.
    change (TF_FINISH =? TF_FULL) with false. cbv iota. cbn [bind].
    rewrite Ecb3.
    destruct (flush_output_buffer (set_finished c3 true) (CBuf len1 w3 ofs3)) as [[st c5] cb5] eqn:Ef5.
    apply fob_vout in Ef5. destruct Ef5 as (Ev5 & _ & Ec5 & Est).
    cbn [set_finished mkc c_pending c_finished andb] in Ev5, Est.
    intros H; inversion H; subst r; clear H.
    assert (Hall : R ++ cb_written cb5 ++ c_pending c5 = FULL).
    { rewrite Ev5, <- Ecb3, Ev, <- Ecb1, app_assoc.
      rewrite Hpe2, app_nil_r in Hout2. rewrite Hout2.
      apply (block_bytes_finish c2 A'); try assumption.
      - lia.
      - replace total with (c_la_pos c2 + c_la_size c2) by (rewrite Hlp2, Hls2, E1, Hlast; lia). exact Hd2.
      - intros Z. rewrite (Had' Z), Hlast, E1, N.add_0_r. unfold total. rewrite Nat2N.id, firstn_all. reflexivity. }
    unfold call_post. cbn [r_status r_in r_out r_comp].
    destruct (c_pending c5) as [|x later] eqn:Hp5; subst st.
    + rewrite app_nil_r in Hall. exact Hall.
    + split.
      * split; [rewrite Ec5; reflexivity|]. right. rewrite Ec5.
        cbn [set_prev set_pending set_finished mkc c_finished c_pending]. split; [reflexivity|].
        rewrite <- app_assoc. exact Hall.
      * rewrite Ec5. cbn [set_prev set_pending set_finished mkc c_finished]. discriminate.
  - (* more to come: hand over what fits *)
    cbn [bind]. rewrite Ecb1.
    destruct (flush_output_buffer c2 (CBuf len1 w1 ofs1)) as [[st c3] cb3] eqn:Ef3.
    apply fob_vout in Ef3. destruct Ef3 as (Ev3 & _ & Ec3 & Est).
    rewrite K5 in Est. cbn [andb] in Est. subst st.
    intros H; inversion H; subst r; clear H.
    unfold call_post. cbn [r_status r_in r_out r_comp].
    split.
    + split; [rewrite Ec3; reflexivity|]. left. exists A'. split; [|split; [exact HAv'|]].
      * rewrite Ec3. unfold BI, cfix.
        cbn [set_prev set_pending mkc c_flags c_wbits c_sbuf c_sbits c_finished c_adler c_la_pos c_la_size
             c_cbdp c_total_bytes c_block_index c_dict c_pending cb_written rev_append app].
        repeat split; try assumption; eauto.
        rewrite <- app_assoc, Ev3, <- Ecb1. exact Hout2.
      * rewrite Ec3. cbn [set_prev set_pending mkc c_la_pos c_la_size]. rewrite Hlp2, Hls2. exact Had'.
    + intros _. rewrite Ec3. cbn [set_prev set_pending mkc c_la_pos c_la_size]. rewrite Hlp2, Hls2. exact Hsk.
Qed.

(* ---- compress_to_vec_inner: the growing-vector loop *)
Definition CI (s : cvstate) : Prop :=
  GI (rev (vs_rout s)) (vs_c s) /\
  (c_finished (vs_c s) = false ->
   vs_in s = skipn (N.to_nat (c_la_pos (vs_c s) + c_la_size (vs_c s))) data).

Definition CQ (r : res cvres) : Prop :=
  match r with Ret (VBytes out) => out = FULL | _ => True end.

Lemma cvec_turn_inl s s' : CI s -> cvec_turn s = inl s' -> CI s'.
Proof.
  intros [HG Hin]. unfold cvec_turn.
  destruct (compress (vs_c s) (vs_in s) (vs_len s - vs_pos s) TF_FINISH) as [cr| |] eqn:Ec; try discriminate.
  destruct cr as [r|]; [|discriminate].
  pose proof (compress_GI _ _ _ _ _ HG Hin Ec) as Hp. unfold call_post in Hp.
  destruct (r_status r); try discriminate.
  destruct (r_in r <=? N.of_nat (length (vs_in s))); [|discriminate].
  intros H; inversion H; subst s'; clear H. unfold CI. cbn [vs_c vs_in vs_rout].
  rewrite rev_append_rev, rev_app_distr, rev_involutive. exact Hp.
Qed.

Lemma cvec_turn_inr s r : CI s -> cvec_turn s = inr r -> CQ r.
Proof.
  intros [HG Hin]. unfold cvec_turn.
  destruct (compress (vs_c s) (vs_in s) (vs_len s - vs_pos s) TF_FINISH) as [cr| |] eqn:Ec;
    try (intros H; inversion H; exact I).
  destruct cr as [rr|]; [|intros H; inversion H; exact I].
  pose proof (compress_GI _ _ _ _ _ HG Hin Ec) as Hp. unfold call_post in Hp.
  destruct (r_status rr); try (intros H; inversion H; exact I).
  - destruct (r_in rr <=? N.of_nat (length (vs_in s))); [discriminate|intros H; inversion H; exact I].
  - intros H; inversion H; subst r; clear H. unfold CQ.
    rewrite !rev_append_rev, app_nil_r, rev_app_distr, rev_involutive. exact Hp.
Qed.
End Run.

(* ------------------------------------------------------------------ the theorem *)
Lemma GI_init data flags : GI data flags 15 [] (comp_new flags 15).
Proof.
  unfold GI. split; [reflexivity|]. left. exists 1. split; [|split; [exact adler_valid_1|]].
  - unfold BI, cfix, comp_new, dict_inv, total, BS, enc.
    cbn [c_flags c_wbits c_sbuf c_sbits c_finished c_adler c_la_pos c_la_size c_cbdp c_total_bytes c_block_index
         c_dict c_pending cb_written rev_append app].
    repeat split; try reflexivity; try lia; eauto.
  - intros _. reflexivity.
Qed.

Theorem compress_to_vec_level0 data flags out :
  hasf flags FLAG_RAW = true ->
  compress_to_vec_inner data flags = Ret (VBytes out) -> out = FULL data flags 15.
Proof.
  intros Hraw. unfold compress_to_vec_inner.
  set (s0 := {| vs_c := comp_new flags 15; vs_in := data; vs_len := _; vs_pos := 0; vs_rout := [] |}).
  assert (H0 : CI data flags 15 s0).
  { split; [apply GI_init|]. intros _. reflexivity. }
  pose proof (iter_pow_inv cvec_turn (CI data flags 15) (CQ data flags 15)
                (cvec_turn_inl data flags 15 Hraw ltac:(lia)) (cvec_turn_inr data flags 15 Hraw ltac:(lia)) 40%nat s0 H0) as H.
  destruct (iter_pow 40 cvec_turn s0) as [s'|r]; [discriminate|].
  intros E. subst r. exact H.
Qed.
