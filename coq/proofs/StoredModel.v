(* Level 0 (TDEFL_FORCE_ALL_RAW_BLOCKS) of the compressor model emits exactly a sequence of
   byte-aligned stored blocks carrying the input, 31745 bytes per block: model side of the
   level-0 round trip. *)
From Coq Require Import NArith ZArith List Bool Lia Arith.
From MZ.lib Require Import Arr Bits Mach.
From MZ.spec Require Import Adler DeflateSpec.
From MZ.gen Require GenTables GenZlib.
From MZ.model Require Import DeflateCore.
From MZ.proofs Require Import IterPow StoredSpec DeflateCounts.
Import ListNotations.
Local Open Scope N_scope.

(* ------------------------------------------------------------------ the bit writer from a byte boundary *)
Definition aligned (o : obuf) : Prop := ob_bb o = 0 /\ ob_bits o = 0.

Definition push (o : obuf) (l : list N) : obuf :=
  {| ob_rev := rev l ++ ob_rev o; ob_n := ob_n o + N.of_nat (length l); ob_bb := 0; ob_bits := 0 |}.

Lemma aligned_push o l : aligned (push o l).
Proof. split; reflexivity. Qed.

Lemma push_push o l l' : push (push o l) l' = push o (l ++ l').
Proof.
  unfold push. cbn [ob_rev ob_n]. f_equal.
  - rewrite rev_app_distr, app_assoc. reflexivity.
  - rewrite app_length. lia.
Qed.

Lemma push_nil o : aligned o -> push o [] = o.
Proof. destruct o as [r n bb bi]. unfold aligned, push. cbn. intros [-> ->]. f_equal. lia. Qed.

Lemma shiftr8_small v : v < 256 -> N.shiftr v 8 = 0.
Proof. intros H. rewrite N.shiftr_div_pow2. apply N.div_small. exact H. Qed.

Lemma ofb_step f o :
  ob_flush_bytes (S f) o =
  if 8 <=? ob_bits o then
    _ <- guard (ob_n o <? OUT_CAP) 301 ;;
    ob_flush_bytes f {| ob_rev := (ob_bb o mod 256) :: ob_rev o; ob_n := ob_n o + 1;
                        ob_bb := N.shiftr (ob_bb o) 8; ob_bits := ob_bits o - 8 |}
  else Ret o.
Proof. reflexivity. Qed.

Lemma ofb_done f o : ob_bits o < 8 -> ob_flush_bytes f o = Ret o.
Proof.
  intros H. destruct f; cbn [ob_flush_bytes];
  (replace (8 <=? ob_bits o) with false by (symmetry; apply N.leb_gt; exact H)); reflexivity.
Qed.

Lemma put_from_aligned r n v len :
  len < 32 -> v < 2 ^ len ->
  put_bits {| ob_rev := r; ob_n := n; ob_bb := 0; ob_bits := 0 |} v len
  = ob_flush_bytes 8 {| ob_rev := r; ob_n := n; ob_bb := v; ob_bits := len |}.
Proof.
  intros Hl Hv. unfold put_bits, put_bits_no_flush, guard. cbn [ob_rev ob_n ob_bb ob_bits].
  replace (len <? 32) with true by (symmetry; apply N.ltb_lt; exact Hl). cbn [bind].
  replace (v <=? N.ones len) with true by (symmetry; apply N.leb_le; rewrite N.ones_equiv; lia). cbn [bind].
  rewrite N.shiftl_0_r, N.lor_0_l, N.add_0_l.
  assert (2 ^ len <= 2 ^ 31) by (apply N.pow_le_mono_r; lia).
  rewrite (N.mod_small v U32) by (unfold U32; change (2 ^ 31) with 2147483648 in *; lia).
  reflexivity.
Qed.

Lemma put8 o v o' : aligned o -> v < 256 -> put_bits o v 8 = Ret o' -> o' = push o [v].
Proof.
  destruct o as [r n bb bi]. unfold aligned. cbn [ob_bb ob_bits]. intros [-> ->] Hv.
  rewrite put_from_aligned by (change (2 ^ 8) with 256; lia).
  rewrite ofb_step. cbn [ob_rev ob_n ob_bb ob_bits]. change (8 <=? 8) with true. cbv iota.
  unfold guard. destruct (n <? OUT_CAP); cbn [bind]; [|discriminate].
  rewrite ofb_done by (cbn [ob_bits]; lia).
  rewrite shiftr8_small, N.mod_small by assumption.
  intros H; inversion H; subst; clear H. reflexivity.
Qed.

Lemma put16 o v o' : aligned o -> v < 65536 -> put_bits o v 16 = Ret o' -> o' = push o (le16 v).
Proof.
  destruct o as [r n bb bi]. unfold aligned. cbn [ob_bb ob_bits]. intros [-> ->] Hv.
  rewrite put_from_aligned by (change (2 ^ 16) with 65536; lia).
  rewrite ofb_step. cbn [ob_rev ob_n ob_bb ob_bits]. change (8 <=? 16) with true. cbv iota.
  unfold guard. destruct (n <? OUT_CAP); cbn [bind]; [|discriminate].
  rewrite ofb_step. cbn [ob_rev ob_n ob_bb ob_bits]. change (8 <=? 16 - 8) with true. cbv iota.
  destruct (n + 1 <? OUT_CAP); cbn [bind]; [|discriminate].
  rewrite ofb_done by (cbn [ob_bits]; lia).
  rewrite !N.shiftr_div_pow2. change (2 ^ 8) with 256.
  rewrite N.div_div by lia. change (256 * 256) with 65536.
  rewrite (N.div_small v 65536) by exact Hv.
  intros H; inversion H; subst; clear H. unfold push, le16. cbn [rev app length ob_rev ob_n].
  change (N.of_nat 2) with 2. f_equal. lia.
Qed.

(* the three header bits of a stored block and the padding to the byte boundary *)
Lemma put_block_header o f o1 o2 o3 :
  aligned o -> f <= 1 ->
  put_bits o f 1 = Ret o1 -> put_bits o1 0 2 = Ret o2 -> ob_pad_to_bytes o2 = Ret o3 ->
  o3 = push o [f].
Proof.
  destruct o as [r n bb bi]. unfold aligned. cbn [ob_bb ob_bits]. intros [-> ->] Hf.
  rewrite put_from_aligned by (change (2 ^ 1) with 2; lia).
  rewrite ofb_done by (cbn [ob_bits]; lia).
  intros H; inversion H; subst o1; clear H.
  unfold put_bits at 1, put_bits_no_flush, guard. cbn [ob_rev ob_n ob_bb ob_bits bind].
  change (2 <? 32) with true. change (0 <=? N.ones 2) with true. cbn [bind].
  rewrite N.shiftl_0_l, N.lor_0_r, (N.mod_small f U32) by (unfold U32; lia).
  rewrite ofb_done by (cbn [ob_bits]; lia).
  intros H; inversion H; subst o2; clear H.
  unfold ob_pad_to_bytes, csub, put_bits, put_bits_no_flush, guard. cbn [ob_rev ob_n ob_bb ob_bits bind].
  change (negb (3 =? 0)) with true. cbv iota. change (3 <=? 8) with true. cbn [bind]. change (8 - 3) with 5.
  change (5 <? 32) with true. cbn [bind]. change (0 <=? N.ones 5) with true. cbn [bind].
  rewrite ?N.shiftl_0_l, ?N.lor_0_r, ?(N.mod_small f U32) by (unfold U32; lia).
  change (3 + 5) with 8.
  rewrite ofb_step. cbn [ob_rev ob_n ob_bb ob_bits]. change (8 <=? 8) with true. cbv iota.
  unfold guard. destruct (n <? OUT_CAP); cbn [bind]; [|discriminate].
  rewrite ofb_done by (cbn [ob_bits]; lia).
  rewrite shiftr8_small, N.mod_small by lia.
  intros H; inversion H; subst; clear H. reflexivity.
Qed.

Lemma pad_aligned o o' : aligned o -> ob_pad_to_bytes o = Ret o' -> o' = o.
Proof.
  intros [_ Hb]. unfold ob_pad_to_bytes. rewrite Hb. cbn. intros H; inversion H; reflexivity.
Qed.

Lemma write_bytes_push o l o' : aligned o -> write_bytes o l = Ret o' -> o' = push o l.
Proof.
  destruct o as [r n bb bi]. unfold aligned. cbn [ob_bb ob_bits]. intros [-> ->].
  unfold write_bytes, guard. cbn [ob_bits ob_n ob_rev ob_bb]. change (0 =? 0) with true. cbn [bind].
  destruct (_ <=? OUT_CAP); cbn [bind]; [|discriminate].
  intros H; inversion H; subst. unfold push. cbn [ob_rev ob_n]. rewrite rev_append_rev. reflexivity.
Qed.

(* ------------------------------------------------------------------ the dictionary *)
Definition dat (data : list N) (j : N) : N := nth (N.to_nat j) data 0.

Definition dict_inv (d : arr) (data : list N) (lo hi : N) : Prop :=
  forall j, lo <= j < hi -> aget d (N.land j DMASK) = dat data j.

Lemma land_dmask j : N.land j DMASK = j mod 32768.
Proof. change DMASK with (N.ones 15). rewrite N.land_ones. reflexivity. Qed.

Lemma dict_put_old bytes : forall d pos i,
  i < 32768 ->
  (forall k, k < N.of_nat (length bytes) -> N.land (pos + k) DMASK <> i) ->
  aget (dict_put d pos bytes) i = aget d i.
Proof.
  induction bytes as [|b bytes IH]; intros d pos i Hi Hne; cbn [dict_put]; [reflexivity|].
  rewrite IH; [|exact Hi|].
  - assert (H0 : N.land pos DMASK <> i) by (specialize (Hne 0); rewrite N.add_0_r in Hne; apply Hne; cbn [length]; lia).
    destruct (N.land pos DMASK <? C_MAX_MATCH - 1).
    + rewrite aget_aset_other.
      * apply aget_aset_other. exact H0.
      * unfold C_DICT_SIZE. lia.
    + apply aget_aset_other. exact H0.
  - intros k Hk. replace (pos + 1 + k) with (pos + (k + 1)) by lia. apply Hne. cbn [length]. lia.
Qed.

Lemma dict_put_new bytes : forall d pos k,
  N.of_nat (length bytes) <= 32768 -> (k < length bytes)%nat ->
  aget (dict_put d pos bytes) (N.land (pos + N.of_nat k) DMASK) = nth k bytes 0.
Proof.
  induction bytes as [|b bytes IH]; intros d pos k Hl Hk; cbn [length] in *; [lia|].
  cbn [dict_put]. destruct k as [|k].
  - cbn [nth]. rewrite N.add_0_r.
    rewrite dict_put_old.
    + destruct (N.land pos DMASK <? C_MAX_MATCH - 1).
      * rewrite aget_aset_other; [apply aget_aset_same|].
        rewrite land_dmask. pose proof (N.mod_lt pos 32768 ltac:(lia)). unfold C_DICT_SIZE. lia.
      * apply aget_aset_same.
    + rewrite land_dmask. apply N.mod_lt. lia.
    + intros j Hj. rewrite !land_dmask.
      intros E.
      pose proof (N.div_mod (pos + 1 + j) 32768 ltac:(lia)) as D1.
      pose proof (N.div_mod pos 32768 ltac:(lia)) as D2.
      pose proof (N.mod_lt pos 32768 ltac:(lia)) as L2.
      rewrite E in D1.
      assert ((pos + 1 + j) / 32768 = pos / 32768 \/ (pos + 1 + j) / 32768 >= pos / 32768 + 1) by lia.
      lia.
  - cbn [nth]. replace (pos + N.of_nat (S k)) with (pos + 1 + N.of_nat k) by lia.
    apply IH; lia.
Qed.

Lemma dict_put_inv d data lo hi bytes :
  dict_inv d data lo hi -> lo <= hi ->
  hi + N.of_nat (length bytes) - lo <= 32768 ->
  (forall k, (k < length bytes)%nat -> nth k bytes 0 = dat data (hi + N.of_nat k)) ->
  dict_inv (dict_put d hi bytes) data lo (hi + N.of_nat (length bytes)).
Proof.
  intros Hinv Hlo Hspan Hb j Hj.
  destruct (N.lt_ge_cases j hi) as [Hold|Hnew].
  - rewrite dict_put_old.
    + apply Hinv. lia.
    + rewrite land_dmask. apply N.mod_lt. lia.
    + intros k Hk. rewrite !land_dmask. intros E.
      pose proof (N.div_mod (hi + k) 32768 ltac:(lia)) as D1.
      pose proof (N.div_mod j 32768 ltac:(lia)) as D2.
      pose proof (N.mod_lt j 32768 ltac:(lia)) as L2.
      rewrite E in D1.
      assert ((hi + k) / 32768 = j / 32768 \/ (hi + k) / 32768 >= j / 32768 + 1 \/ (hi + k) / 32768 + 1 <= j / 32768) by lia.
      lia.
  - replace j with (hi + N.of_nat (N.to_nat (j - hi))) by lia.
    rewrite dict_put_new by lia. apply Hb. lia.
Qed.

Lemma dict_inv_weaken d data lo hi lo' hi' :
  dict_inv d data lo hi -> lo <= lo' -> hi' <= hi -> dict_inv d data lo' hi'.
Proof. intros H A B j Hj. apply H. lia. Qed.

Lemma nth_dict_range d s len k :
  s < 32768 -> len < 32768 -> (k < N.to_nat len)%nat ->
  nth k (dict_range d s len) 0 = aget d (N.land (s + N.of_nat k) DMASK).
Proof.
  intros Hs Hl Hk. unfold dict_range. rewrite !land_dmask. unfold C_DICT_SIZE.
  destruct (N.lt_ge_cases (s + len) 32768) as [Hn|Hw].
  - rewrite (N.mod_small (s + len)) by exact Hn.
    rewrite (N.mod_small (s + N.of_nat k)) by lia.
    replace (s <? s + len) with true by (symmetry; apply N.ltb_lt; lia).
    unfold aget_list. rewrite nth_aget_list_nat by lia. reflexivity.
  - assert (E : (s + len) mod 32768 = s + len - 32768).
    { symmetry. apply (N.mod_unique _ _ 1); lia. }
    rewrite E.
    replace (s <? s + len - 32768) with false by (symmetry; apply N.ltb_ge; lia).
    replace (0 <? len) with true by (symmetry; apply N.ltb_lt; lia).
    unfold aget_list.
    destruct (Nat.lt_ge_cases k (N.to_nat (32768 - s))) as [H1|H2].
    + rewrite app_nth1 by (rewrite length_aget_list_nat; exact H1).
      rewrite nth_aget_list_nat by exact H1.
      rewrite (N.mod_small (s + N.of_nat k)) by lia. reflexivity.
    + rewrite app_nth2 by (rewrite length_aget_list_nat; exact H2).
      rewrite length_aget_list_nat. rewrite nth_aget_list_nat by lia.
      f_equal. rewrite N.add_0_l. apply (N.mod_unique _ _ 1); lia.
Qed.

Lemma length_dict_range d s len :
  s < 32768 -> len < 32768 -> length (dict_range d s len) = N.to_nat len.
Proof.
  intros Hs Hl. unfold dict_range. rewrite !land_dmask. unfold C_DICT_SIZE.
  destruct (N.lt_ge_cases (s + len) 32768) as [Hn|Hw].
  - rewrite (N.mod_small (s + len)) by exact Hn.
    destruct (s <? s + len) eqn:E.
    + unfold aget_list. rewrite length_aget_list_nat. lia.
    + apply N.ltb_ge in E. replace (0 <? len) with false by (symmetry; apply N.ltb_ge; lia).
      cbn [length]. lia.
  - assert (E : (s + len) mod 32768 = s + len - 32768).
    { symmetry. apply (N.mod_unique _ _ 1); lia. }
    rewrite E.
    replace (s <? s + len - 32768) with false by (symmetry; apply N.ltb_ge; lia).
    replace (0 <? len) with true by (symmetry; apply N.ltb_lt; lia).
    unfold aget_list. rewrite app_length, !length_aget_list_nat. lia.
Qed.

Lemma nth_firstn_lt {A} (d : A) : forall (l : list A) n k, (k < n)%nat -> nth k (firstn n l) d = nth k l d.
Proof.
  induction l as [|x l IH]; intros n k H.
  - rewrite firstn_nil. reflexivity.
  - destruct n as [|n]; [lia|]. destruct k as [|k]; cbn [firstn nth]; [reflexivity|]. apply IH. lia.
Qed.

Lemma nth_skipn_add {A} (d : A) : forall (l : list A) n k, nth k (skipn n l) d = nth (n + k) l d.
Proof.
  induction l as [|x l IH]; intros n k.
  - rewrite skipn_nil. destruct k, n; reflexivity.
  - destruct n as [|n]; cbn [skipn plus nth]; [reflexivity|]. apply IH.
Qed.

Lemma dict_range_data d data lo len :
  dict_inv d data lo (lo + len) -> len < 32768 -> lo + len <= N.of_nat (length data) ->
  dict_range d (N.land lo DMASK) len = firstn (N.to_nat len) (skipn (N.to_nat lo) data).
Proof.
  intros Hinv Hl Hd.
  assert (Hs : N.land lo DMASK < 32768) by (rewrite land_dmask; apply N.mod_lt; lia).
  apply (nth_ext _ _ 0 0).
  - rewrite length_dict_range by assumption. rewrite firstn_length, skipn_length. lia.
  - rewrite length_dict_range by assumption. intros k Hk.
    rewrite nth_dict_range by assumption.
    rewrite !land_dmask, N.add_mod_idemp_l by lia. rewrite <- land_dmask.
    rewrite Hinv by lia. unfold dat.
    rewrite nth_firstn_lt by exact Hk.
    rewrite nth_skipn_add. f_equal. lia.
Qed.
