(* T_frame, continued: every state handler of M_inf preserves the invariant J, hence every normal
   return of decompress satisfies the window / count / truthfulness clauses. *)
From Coq Require Import NArith ZArith List Bool Lia.
From MZ.lib Require Import Arr Bits Mach.
From MZ.spec Require Import Adler.
From MZ.gen Require GenTables.
From MZ.model Require Import InflateCore.
From MZ.proofs Require Import IterPow InflateFrame InflateCopy.
Import ListNotations.
Local Open Scope N_scope.

(* ---- the one table fact the window argument needs: a decoded match length is at most 258 *)
Fixpoint nrange (lo : N) (n : nat) : list N :=
  match n with O => [] | S n' => lo :: nrange (lo + 1) n' end.
Lemma nrange_in n : forall lo x, lo <= x < lo + N.of_nat n -> In x (nrange lo n).
Proof.
  induction n as [|n IH]; intros lo x H; [lia|]. cbn [nrange].
  destruct (N.eq_dec lo x) as [->|Hne]; [now left|right]. apply IH. lia.
Qed.

Lemma length_table_bound_all :
  forallb (fun i => tab GenTables.t_LENGTH_BASE i + 2 ^ tab GenTables.t_LENGTH_EXTRA i <=? 259) (nrange 0 29) = true.
Proof. vm_compute. reflexivity. Qed.

Lemma length_table_bound i e :
  i <= 28 -> e < 2 ^ tab GenTables.t_LENGTH_EXTRA i -> tab GenTables.t_LENGTH_BASE i + e <= 258.
Proof.
  intros Hi He. pose proof length_table_bound_all as H. rewrite forallb_forall in H.
  specialize (H i (nrange_in 29 0 i ltac:(lia))). apply N.leb_le in H. lia.
Qed.

Lemma land_ones_lt x k : N.land x (N.ones k) < 2 ^ k.
Proof. rewrite N.land_ones. apply N.mod_lt. apply N.pow_nonzero. lia. Qed.

Section Frame.
Variable flags : N.
Variable in_buf : list N.
Variable in_len omax mask : N.
Variable o0 : arr.
Variable p0 : N.
Hypothesis Hinlen : in_len = N.of_nat (length in_buf).

Notation J := (J omax o0 p0).
Notation post := (post omax o0 p0).
Notation A := (A omax).

(* helpers that do not move the output side *)
Lemma fill_bit_buffer_out c c' : fill_bit_buffer c = Ret c' -> pos c' = pos c /\ out c' = out c.
Proof.
  unfold fill_bit_buffer. destruct (nb c <? 30); [|intros H; inversion H; subst; tauto].
  destruct (inp c) as [|b0 [|b1 [|b2 [|b3 rest]]]]; try discriminate.
  unfold push_bits, guard. cbn [set_in mk nb]. destruct (nb c <? 64); cbn [bind]; [|discriminate].
  intros H; inversion H; subst. split; reflexivity.
Qed.

Lemma drop_bits_out c len c' : drop_bits c len = Ret c' -> pos c' = pos c /\ out c' = out c.
Proof.
  unfold drop_bits, guard, csub. destruct (len <? 64); cbn [bind]; [|discriminate].
  destruct (len <=? nb c); cbn [bind]; [|discriminate].
  intros H; inversion H; subst. split; reflexivity.
Qed.

Lemma bytes_left_spec c left : bytes_left omax c = Ret left -> J c -> left = omax - pos c /\ pos c + left = omax.
Proof.
  unfold bytes_left, csub. destruct (pos c <=? omax) eqn:E; [|discriminate].
  intros H; inversion H; subst. apply N.leb_le in E. lia.
Qed.

Lemma post_jump s c : J c -> post (jump s c).
Proof. intros H. cbn. split; [exact H|exact I]. Qed.

Lemma post_ret_none c : J c -> post (Ret (ANone, c)).
Proof. intros H. split; [exact H|exact I]. Qed.

Lemma post_ret_jump s c : J c -> post (Ret (AJump s, c)).
Proof. intros H. split; [exact H|exact I]. Qed.

Hint Resolve J_set_rr J_set_st J_set_bits J_set_dist J_set_ctr J_set_nex post_jump post_ret_none post_ret_jump : jdb.

(* applying a copy at the current position, staying inside the granted window *)
Lemma J_after_copy c o' n :
  J c -> frame (out c) o' (pos c) (pos c + n) -> pos c + n <= omax -> J (set_out c o' (pos c + n)).
Proof.
  intros (H1 & H2 & H3 & H4 & H5 & H6) [L F] Hn. unfold J. cbn [set_out mk ileft inp out pos].
  repeat split; try assumption; try lia; try congruence.
  intros i Hi. rewrite F by lia. apply H6. lia.
Qed.

Lemma fast_match_post c :
  J c -> pos c + 258 <= omax -> post (fast_match flags mask c).
Proof.
  intros HJ Hroom. unfold fast_match.
  set (c1 := set_ctr c (N.land (ctr c) 511)).
  assert (HJ1 : J c1) by (apply J_set_ctr, HJ).
  destruct (ctr c1 =? 256); [apply post_jump, HJ1|].
  destruct (285 <? ctr c1) eqn:E285; [apply post_jump, HJ1|].
  destruct (csub (ctr c1) 257 157) as [i0| |] eqn:Ei0; cbn [bind]; try exact I.
  set (i := N.land i0 31).
  assert (Hi : i <= 28).
  { unfold csub in Ei0. destruct (257 <=? ctr c1) eqn:E257; [|discriminate]. inversion Ei0; subst i0.
    apply N.ltb_ge in E285. apply N.leb_le in E257. unfold i.
    change (N.land (ctr c) 511) with (ctr c1).
    change 31 with (N.ones 5). rewrite N.land_ones. change (2 ^ 5) with 32.
    rewrite N.mod_small by lia. lia. }
  set (c2 := set_ctr (set_nex c1 (tab GenTables.t_LENGTH_EXTRA i)) (tab GenTables.t_LENGTH_BASE i)).
  assert (HJ2 : J c2) by (apply J_set_ctr, J_set_nex, HJ1).
  destruct (fill_bit_buffer c2) as [c3| |] eqn:E3; cbn [bind]; try exact I.
  assert (HJ3 : J c3) by (eapply fill_bit_buffer_J; eassumption).
  destruct (fill_bit_buffer_out _ _ E3) as [P3 O3].
  assert (Hregs3 : nex c3 = tab GenTables.t_LENGTH_EXTRA i /\ ctr c3 = tab GenTables.t_LENGTH_BASE i).
  { unfold fill_bit_buffer in E3. destruct (nb c2 <? 30).
    - destruct (inp c2) as [|b0 [|b1 [|b2 [|b3 rest]]]]; try discriminate.
      unfold push_bits, guard in E3. cbn [set_in mk nb] in E3. destruct (nb c2 <? 64); cbn [bind] in E3; [|discriminate].
      inversion E3; subst. split; reflexivity.
    - inversion E3; subst. split; reflexivity. }
  destruct Hregs3 as [Hnex3 Hctr3].
  match goal with |- context [bind ?X _] => destruct X as [c4| |] eqn:E4 end; cbn [bind]; try exact I.
  assert (H4 : J c4 /\ pos c4 = pos c /\ ctr c4 <= 258).
  { destruct (nex c3 =? 0) eqn:En.
    - injection E4 as <-. split; [exact HJ3|]. split; [rewrite P3; reflexivity|].
      rewrite Hctr3. apply N.eqb_eq in En. rewrite Hnex3 in En.
      pose proof (length_table_bound i 0 Hi ltac:(rewrite En; cbn; lia)). lia.
    - destruct (drop_bits c3 (nex c3)) as [c'| |] eqn:Ed; cbn [bind] in E4; try discriminate.
      injection E4 as <-. destruct (drop_bits_out _ _ _ Ed) as [Pd Od].
      split; [apply J_set_ctr; eapply drop_bits_J; eassumption|].
      split; [cbn [set_ctr mk pos]; rewrite Pd, P3; reflexivity|].
      cbn [set_ctr mk ctr].
      assert (Hc' : ctr c' = ctr c3).
      { unfold drop_bits, guard, csub in Ed. destruct (nex c3 <? 64); cbn [bind] in Ed; [|discriminate].
        destruct (nex c3 <=? nb c3); cbn [bind] in Ed; [|discriminate]. inversion Ed; subst. reflexivity. }
      rewrite Hc', Hctr3. apply length_table_bound; [exact Hi|]. rewrite <- Hnex3. apply land_ones_lt. }
  destruct H4 as (HJ4 & P4 & C4).
  destruct (lookup (d_t1 (rr c4)) (bb c4)) as [[sym len]| |]; cbn [bind]; try exact I.
  destruct (drop_bits c4 len) as [c5| |] eqn:E5; cbn [bind]; try exact I.
  assert (HJ5 : J c5) by (eapply drop_bits_J; eassumption).
  destruct (drop_bits_out _ _ _ E5) as [P5 O5].
  assert (C5 : ctr c5 = ctr c4).
  { unfold drop_bits, guard, csub in E5. destruct (len <? 64); cbn [bind] in E5; [|discriminate].
    destruct (len <=? nb c4); cbn [bind] in E5; [|discriminate]. inversion E5; subst. reflexivity. }
  destruct (29 <? Z.to_N (Z.land sym 511)); [apply post_jump, HJ5|].
  set (sy := Z.to_N (Z.land sym 511)).
  set (ne := if sy <? 4 then 0 else N.shiftr sy 1 - 1).
  set (c6 := set_dist (set_nex c5 ne) (tab GenTables.t_DIST_BASE sy)).
  assert (HJ6 : J c6) by (apply J_set_dist, J_set_nex, HJ5).
  match goal with |- context [bind ?X _] => destruct X as [c7| |] eqn:E7 end; cbn [bind]; try exact I.
  assert (H7 : J c7 /\ pos c7 = pos c /\ ctr c7 <= 258).
  { destruct (ne =? 0).
    - injection E7 as <-. split; [exact HJ6|]. split; [cbn; rewrite P5, P4; reflexivity|].
      cbn [c6 set_dist set_nex mk ctr]. rewrite C5. exact C4.
    - destruct (fill_bit_buffer c6) as [c0| |] eqn:Ef; cbn [bind] in E7; try discriminate.
      destruct (drop_bits c0 ne) as [c1'| |] eqn:Ed; cbn [bind] in E7; try discriminate.
      injection E7 as <-.
      destruct (fill_bit_buffer_out _ _ Ef) as [Pf Of]. destruct (drop_bits_out _ _ _ Ed) as [Pd Od].
      split; [apply J_set_dist; eapply drop_bits_J; [exact Ed|]; eapply fill_bit_buffer_J; eassumption|].
      split; [cbn [set_dist mk pos]; rewrite Pd, Pf; cbn; rewrite P5, P4; reflexivity|].
      cbn [set_dist mk ctr].
      assert (ctr c1' = ctr c0).
      { unfold drop_bits, guard, csub in Ed. destruct (ne <? 64); cbn [bind] in Ed; [|discriminate].
        destruct (ne <=? nb c0); cbn [bind] in Ed; [|discriminate]. inversion Ed; subst. reflexivity. }
      assert (ctr c0 = ctr c6).
      { unfold fill_bit_buffer in Ef. destruct (nb c6 <? 30).
        - destruct (inp c6) as [|b0 [|b1 [|b2 [|b3 rest]]]]; try discriminate.
          unfold push_bits, guard in Ef. cbn [set_in mk nb] in Ef. destruct (nb c6 <? 64); cbn [bind] in Ef; [|discriminate].
          inversion Ef; subst. reflexivity.
        - inversion Ef; subst. reflexivity. }
      assert (ctr c6 = ctr c5) by reflexivity. lia. }
  destruct H7 as (HJ7 & P7 & C7).
  destruct (dist_check flags c7); [apply post_jump, HJ7|].
  destruct (apply_match mask (out c7) (pos c7) (dist c7) (ctr c7)) as [o| |] eqn:Ea; cbn [bind]; try exact I.
  apply apply_match_frame in Ea.
  split; [|exact I]. apply J_after_copy; [exact HJ7|exact Ea|lia].
Qed.

Lemma lit_pair_post c on_len :
  J c -> pos c + 2 <= omax ->
  (forall c1, J c1 -> pos c1 <= pos c + 1 -> post (on_len c1)) ->
  post (lit_pair c on_len).
Proof.
  intros HJ Hroom Hon. unfold lit_pair.
  destruct (fill_bit_buffer c) as [c1| |] eqn:E1; cbn [bind]; try exact I.
  assert (HJ1 : J c1) by (eapply fill_bit_buffer_J; eassumption).
  destruct (fill_bit_buffer_out _ _ E1) as [P1 O1].
  destruct (lookup (d_t0 (rr c1)) (bb c1)) as [[sym len]| |]; cbn [bind]; try exact I.
  destruct (drop_bits (set_ctr c1 (Z.to_N sym)) len) as [c2| |] eqn:E2; cbn [bind]; try exact I.
  assert (HJ2 : J c2) by (eapply drop_bits_J; [exact E2|apply J_set_ctr, HJ1]).
  destruct (drop_bits_out _ _ _ E2) as [P2 O2]. cbn [set_ctr mk pos] in P2.
  destruct (negb (N.land (ctr c2) 256 =? 0)); [apply Hon; [exact HJ2|lia]|].
  destruct (lookup (d_t0 (rr c2)) (bb c2)) as [[sym2 len2]| |]; cbn [bind]; try exact I.
  destruct (drop_bits c2 len2) as [c3| |] eqn:E3; cbn [bind]; try exact I.
  assert (HJ3 : J c3) by (eapply drop_bits_J; eassumption).
  destruct (drop_bits_out _ _ _ E3) as [P3 O3].
  destruct (write_byte c3 (ctr c3)) as [c4| |] eqn:E4; cbn [bind]; try exact I.
  destruct (write_byte_J _ _ _ _ _ _ E4 HJ3 ltac:(lia)) as [HJ4 P4].
  destruct (negb (N.land (Z.to_N sym2) 256 =? 0)).
  - apply Hon; [apply J_set_ctr, HJ4|cbn [set_ctr mk pos]; lia].
  - destruct (write_byte c4 (Z.to_N sym2)) as [c5| |] eqn:E5; cbn [bind]; try exact I.
    destruct (write_byte_J _ _ _ _ _ _ E5 HJ4 ltac:(lia)) as [HJ5 P5].
    apply post_ret_none, HJ5.
Qed.

Lemma length_skipn_N {T} (l : list T) k :
  N.of_nat (length (skipn (N.to_nat k) l)) = N.of_nat (length l) - k.
Proof. rewrite skipn_length. lia. Qed.

Ltac jfin :=
  first [apply post_jump | apply post_ret_none | apply post_ret_jump];
  repeat first [assumption | apply J_set_rr | apply J_set_st | apply J_set_bits | apply J_set_dist
               | apply J_set_ctr | apply J_set_nex].

Ltac gd := unfold guard, csub;
  match goal with |- context [if ?b then Ret _ else Panic _] => destruct b eqn:?; cbn [bind]; [|exact I] end.

Lemma post_end_other s c :
  J c -> s <> HasMoreOutput -> s <> NeedsMoreInput -> s <> FailedCannotMakeProgress ->
  post (Ret (AEnd s, c)).
Proof. intros H H1 H2 H3. split; [exact H|apply A_end_other; assumption]. Qed.

Lemma post_eoi c : J c -> inp c = [] -> post (Ret (AEnd (end_of_input flags), c)).
Proof. intros H Hn. split; [exact H|apply A_end_of_input, Hn]. Qed.

Lemma post_hmo c : J c -> pos c = omax -> post (Ret (AEnd HasMoreOutput, c)).
Proof. intros H Hp. split; [exact H|apply A_more_output, Hp]. Qed.

Lemma st_start c : J c -> st c = Start -> post (step flags in_buf in_len omax mask c).
Proof.
  intros HJ E. unfold step. rewrite E.
  destruct (has flags F_ZLIB); apply post_jump; (eapply J_same; [| | | |exact HJ]; reflexivity).
Qed.

Lemma st_cmf c : J c -> st c = ReadZlibCmf -> post (step flags in_buf in_len omax mask c).
Proof.
  intros HJ E. unfold step. rewrite E.
  destruct (read_byte c) as [[b c1]|] eqn:Er.
  - apply post_jump, J_set_rr. eapply read_byte_some; eassumption.
  - apply post_eoi; [exact HJ|apply read_byte_none, Er].
Qed.

Lemma st_flg c : J c -> st c = ReadZlibFlg -> post (step flags in_buf in_len omax mask c).
Proof.
  intros HJ E. unfold step. rewrite E.
  destruct (read_byte c) as [[b c1]|] eqn:Er.
  - assert (HJ1 : J c1) by (eapply read_byte_some; eassumption).
    destruct (GenZlib.validate_zlib_header _ _ _ _) as [[x target] ok].
    destruct (target =? GenZlib.e_State_BadZlibHeader)%Z; jfin.
  - apply post_eoi; [exact HJ|apply read_byte_none, Er].
Qed.

Lemma st_blockheader c : J c -> st c = ReadBlockHeader -> post (step flags in_buf in_len omax mask c).
Proof.
  intros HJ E. unfold step. rewrite E.
  apply read_bits_post; [|exact HJ]. intros c1 bits HJ1.
  match goal with |- context [d_block_type ?r =? 0] => destruct (d_block_type r =? 0) end; [jfin|].
  match goal with |- context [d_block_type ?r =? 1] => destruct (d_block_type r =? 1) end;
    [apply init_tree_post; apply J_set_rr; assumption|].
  match goal with |- context [d_block_type ?r =? 2] => destruct (d_block_type r =? 2) end; jfin.
Qed.

Lemma st_nocomp c : J c -> st c = BlockTypeNoCompression -> post (step flags in_buf in_len omax mask c).
Proof.
  intros HJ E. unfold step. rewrite E. apply pad_to_bytes_post; [|exact HJ]. intros c1 H1. jfin.
Qed.

Lemma st_rawheader c : J c -> st c = RawHeader -> post (step flags in_buf in_len omax mask c).
Proof.
  intros HJ E. unfold step. rewrite E.
  destruct (ctr c <? 4).
  - destruct (negb (nb c =? 0)).
    + apply read_bits_post; [|exact HJ]. intros c1 bits H1. jfin.
    + destruct (read_byte c) as [[b c1]|] eqn:Er.
      * assert (J c1) by (eapply read_byte_some; eassumption). jfin.
      * apply post_eoi; [exact HJ|apply read_byte_none, Er].
  - match goal with |- context [negb (?a + ?b =? 65535)] => destruct (negb (a + b =? 65535)) end; [jfin|].
    match goal with |- context [?l =? 0] => destruct (l =? 0) end; [jfin|].
    destruct (negb (nb (set_ctr c _) =? 0)); jfin.
Qed.

Lemma st_rawread c : J c -> st c = RawReadFirstByte -> post (step flags in_buf in_len omax mask c).
Proof.
  intros HJ E. unfold step. rewrite E. apply read_bits_post; [|exact HJ]. intros c1 bits H1. jfin.
Qed.

Lemma st_rawstore c : J c -> st c = RawStoreFirstByte -> post (step flags in_buf in_len omax mask c).
Proof.
  intros HJ E. unfold step. rewrite E.
  destruct (bytes_left omax c) as [left| |] eqn:El; cbn [bind]; try exact I.
  destruct (bytes_left_spec _ _ El HJ) as [L1 L2].
  destruct (left =? 0) eqn:E0.
  - apply N.eqb_eq in E0. apply post_hmo; [exact HJ|lia].
  - apply N.eqb_neq in E0.
    destruct (write_byte c (dist c)) as [c1| |] eqn:Ew; cbn [bind]; try exact I.
    destruct (write_byte_J _ _ _ _ _ _ Ew HJ ltac:(lia)) as [H1 P1].
    gd. match goal with |- context [if ?b then _ else _] => destruct b end; jfin.
Qed.

Lemma st_memcpy1 c : J c -> st c = RawMemcpy1 -> post (step flags in_buf in_len omax mask c).
Proof.
  intros HJ E. unfold step. rewrite E.
  destruct (bytes_left omax c) as [left| |] eqn:El; cbn [bind]; try exact I.
  destruct (bytes_left_spec _ _ El HJ) as [L1 L2].
  destruct (ctr c =? 0); [jfin|].
  destruct (left =? 0) eqn:E0; [|jfin].
  apply N.eqb_eq in E0. apply post_hmo; [exact HJ|lia].
Qed.

Lemma st_memcpy2 c : J c -> st c = RawMemcpy2 -> post (step flags in_buf in_len omax mask c).
Proof.
  intros HJ E. unfold step. rewrite E.
  destruct (0 <? ileft c) eqn:E0.
  - destruct (bytes_left omax c) as [left| |] eqn:El; cbn [bind]; try exact I.
    destruct (bytes_left_spec _ _ El HJ) as [L1 L2].
    set (n := N.min (N.min left (ileft c)) (ctr c)).
    gd. apply post_jump, J_set_ctr.
    destruct HJ as (H1 & H2 & H3 & H4 & H5 & H6).
    unfold J. cbn [set_in set_out mk ileft inp out pos].
    rewrite alen_aset_list.
    assert (Hn : n <= N.of_nat (length (inp c))) by (unfold n; lia).
    repeat split; try lia.
    + rewrite length_skipn_N. lia.
    + intros i Hi. rewrite aget_aset_list_out.
      * apply H6. lia.
      * rewrite firstn_length. lia.
  - apply post_eoi; [exact HJ|].
    destruct HJ as (H1 & _). apply N.ltb_ge in E0. destruct (inp c); [reflexivity|cbn [length] in H1; lia].
Qed.

Lemma st_tablesizes c : J c -> st c = ReadTableSizes -> post (step flags in_buf in_len omax mask c).
Proof.
  intros HJ E. unfold step. rewrite E.
  destruct (ctr c <? 3).
  - apply read_bits_post; [|exact HJ]. intros c1 bits H1. jfin.
  - match goal with |- context [if ?b then jump ReadHufflenTableCodeSize _ else _] => destruct b end; jfin.
Qed.

Lemma st_hufflen c : J c -> st c = ReadHufflenTableCodeSize -> post (step flags in_buf in_len omax mask c).
Proof.
  intros HJ E. unfold step. rewrite E.
  destruct (ctr c <? d_ts2 (rr c)).
  - apply read_bits_post; [|exact HJ]. intros c1 bits H1. gd. gd. jfin.
  - apply init_tree_post. apply J_set_rr, HJ.
Qed.

Lemma st_litlendist c : J c -> st c = ReadLitlenDistTablesCodeSize -> post (step flags in_buf in_len omax mask c).
Proof.
  intros HJ E. unfold step. rewrite E.
  destruct (ctr c <? d_ts0 (rr c) + d_ts1 (rr c)).
  - apply decode_huffman_code_post; [|exact HJ]. intros c1 sym H1.
    destruct (dist (set_dist c1 (Z.to_N sym)) <? 16); [jfin|].
    match goal with |- context [if ?b then jump BadCodeSizeDistPrevLookup _ else _] => destruct b end; jfin.
  - destruct (negb (ctr c =? d_ts0 (rr c) + d_ts1 (rr c))); [jfin|].
    gd. gd. gd. gd. gd. apply init_tree_post. apply J_set_rr, HJ.
Qed.

Lemma st_extracs c : J c -> st c = ReadExtraBitsCodeSize -> post (step flags in_buf in_len omax mask c).
Proof.
  intros HJ E. unfold step. rewrite E.
  apply read_bits_post; [|exact HJ]. intros c1 bits H1.
  gd.
  match goal with |- context [bind ?X _] => destruct X as [val| |] end; cbn [bind]; try exact I.
  gd. gd. jfin.
Qed.

Lemma st_decodelitlen c : J c -> st c = DecodeLitlen -> post (step flags in_buf in_len omax mask c).
Proof.
  intros HJ E. unfold step. rewrite E.
  destruct (bytes_left omax c) as [left| |] eqn:El; cbn [bind]; try exact I.
  destruct (bytes_left_spec _ _ El HJ) as [L1 L2].
  destruct ((ileft c <? 4) || (left <? 2)) eqn:E1.
  - apply decode_huffman_code_post; [|exact HJ]. intros c1 sym H1. jfin.
  - apply orb_false_iff in E1. destruct E1 as [_ E2]. apply N.ltb_ge in E2.
    destruct ((259 <=? left) && (14 <=? ileft c)) eqn:E3.
    + apply andb_true_iff in E3. destruct E3 as [E3 _]. apply N.leb_le in E3.
      apply lit_pair_post; [exact HJ|lia|]. intros c1 H1 P1. apply fast_match_post; [exact H1|lia].
    + apply lit_pair_post; [exact HJ|lia|]. intros c1 H1 P1. jfin.
Qed.

Lemma st_writesymbol c : J c -> st c = WriteSymbol -> post (step flags in_buf in_len omax mask c).
Proof.
  intros HJ E. unfold step. rewrite E.
  destruct (bytes_left omax c) as [left| |] eqn:El; cbn [bind]; try exact I.
  destruct (bytes_left_spec _ _ El HJ) as [L1 L2].
  destruct (256 <=? ctr c); [jfin|].
  destruct (0 <? left) eqn:E0.
  - apply N.ltb_lt in E0.
    destruct (write_byte c (ctr c)) as [c1| |] eqn:Ew; cbn [bind]; try exact I.
    destruct (write_byte_J _ _ _ _ _ _ Ew HJ ltac:(lia)) as [H1 P1]. jfin.
  - apply N.ltb_ge in E0. apply post_hmo; [exact HJ|lia].
Qed.

Lemma st_hdol1 c : J c -> st c = HuffDecodeOuterLoop1 -> post (step flags in_buf in_len omax mask c).
Proof.
  intros HJ E. unfold step. rewrite E.
  match goal with |- context [ctr ?x =? 256] => destruct (ctr x =? 256) end; [jfin|].
  match goal with |- context [285 <? ctr ?x] => destruct (285 <? ctr x) end; [jfin|].
  gd. match goal with |- context [if ?b then jump ReadExtraBitsLitlen _ else _] => destruct b end; jfin.
Qed.

Lemma st_extralitlen c : J c -> st c = ReadExtraBitsLitlen -> post (step flags in_buf in_len omax mask c).
Proof.
  intros HJ E. unfold step. rewrite E. apply read_bits_post; [|exact HJ]. intros c1 bits H1. jfin.
Qed.

Lemma st_decodedist c : J c -> st c = DecodeDistance -> post (step flags in_buf in_len omax mask c).
Proof.
  intros HJ E. unfold step. rewrite E.
  apply decode_huffman_code_post; [|exact HJ]. intros c1 sym H1.
  destruct (29 <? Z.to_N sym); [jfin|].
  match goal with |- context [if ?b then jump ReadExtraBitsDistance _ else _] => destruct b end; jfin.
Qed.

Lemma st_extradist c : J c -> st c = ReadExtraBitsDistance -> post (step flags in_buf in_len omax mask c).
Proof.
  intros HJ E. unfold step. rewrite E. apply read_bits_post; [|exact HJ]. intros c1 bits H1. jfin.
Qed.

Lemma st_hdol2 c : J c -> st c = HuffDecodeOuterLoop2 -> post (step flags in_buf in_len omax mask c).
Proof.
  intros HJ E. unfold step. rewrite E.
  destruct (dist_check flags c); [jfin|].
  destruct (bytes_left omax c) as [left| |] eqn:El; cbn [bind]; try exact I.
  destruct (bytes_left_spec _ _ El HJ) as [L1 L2].
  match goal with |- context [if ?b then (if ctr c =? 0 then _ else _) else _] => destruct b eqn:Eb end.
  - destruct (ctr c =? 0); jfin.
  - apply orb_false_iff in Eb. destruct Eb as [Eb _]. apply N.ltb_ge in Eb.
    destruct (apply_match mask (out c) (pos c) (dist c) (ctr c)) as [o| |] eqn:Ea; cbn [bind]; try exact I.
    apply apply_match_frame in Ea.
    apply post_jump. apply J_after_copy; [exact HJ|exact Ea|lia].
Qed.

Lemma st_writelen c : J c -> st c = WriteLenBytesToEnd -> post (step flags in_buf in_len omax mask c).
Proof.
  intros HJ E. unfold step. rewrite E.
  destruct (dist_check flags c); [jfin|].
  destruct (bytes_left omax c) as [left| |] eqn:El; cbn [bind]; try exact I.
  destruct (bytes_left_spec _ _ El HJ) as [L1 L2].
  destruct (0 <? left) eqn:E0.
  - match goal with |- context [transfer mask ?o ?s ?p ?l] => destruct (transfer mask o s p l) as [o'| |] eqn:Et end;
      cbn [bind]; try exact I.
    apply transfer_frame in Et.
    assert (HJ1 : J (set_out c o' (pos c + N.min left (ctr c)))) by (apply J_after_copy; [exact HJ|exact Et|lia]).
    match goal with |- context [if ?b then jump DecodeLitlen _ else _] => destruct b end; jfin.
  - apply N.ltb_ge in E0. apply post_hmo; [exact HJ|lia].
Qed.

Lemma st_blockdone c : J c -> st c = BlockDone -> post (step flags in_buf in_len omax mask c).
Proof.
  intros HJ E. unfold step. rewrite E.
  destruct (negb (d_finish (rr c) =? 0)).
  - pose proof (pad_to_bytes_post flags omax o0 p0 c (fun c => Ret (ANone, c)) ltac:(intros; apply post_ret_none; assumption) HJ) as Hp.
    destruct (pad_to_bytes flags c (fun c0 => Ret (ANone, c0))) as [[a c1]| |]; cbn [bind]; try exact I.
    destruct Hp as [H1 _].
    destruct (undo_bytes (nb c1) ((in_len - ileft c1) mod U32)) as [undo nb'].
    set (keep := in_len - ileft c1 - undo).
    assert (HJ2 : J (set_in (set_bits c1 (bb c1) nb') (skipn (N.to_nat keep) in_buf) (in_len - keep))).
    { destruct H1 as (A1 & A2). unfold J. cbn [set_in set_bits mk ileft inp out pos].
      split; [|exact A2]. rewrite length_skipn_N, Hinlen. reflexivity. }
    gd. gd. destruct (has flags F_ZLIB); jfin.
  - destruct (has flags F_STOPBB).
    + apply post_end_other; [exact HJ|discriminate|discriminate|discriminate].
    + jfin.
Qed.

Lemma st_readadler c : J c -> st c = ReadAdler32 -> post (step flags in_buf in_len omax mask c).
Proof.
  intros HJ E. unfold step. rewrite E.
  destruct (ctr c <? 4); [|jfin].
  destruct (negb (nb c =? 0)).
  - apply read_bits_post; [|exact HJ]. intros c1 bits H1. jfin.
  - destruct (read_byte c) as [[b c1]|] eqn:Er.
    + assert (J c1) by (eapply read_byte_some; eassumption). jfin.
    + apply post_eoi; [exact HJ|apply read_byte_none, Er].
Qed.

Theorem step_post c : J c -> post (step flags in_buf in_len omax mask c).
Proof.
  intros HJ. destruct (st c) eqn:E;
  first [ apply st_start; assumption | apply st_cmf; assumption | apply st_flg; assumption
        | apply st_blockheader; assumption | apply st_nocomp; assumption | apply st_rawheader; assumption
        | apply st_memcpy1; assumption | apply st_memcpy2; assumption | apply st_tablesizes; assumption
        | apply st_hufflen; assumption | apply st_litlendist; assumption | apply st_extracs; assumption
        | apply st_decodelitlen; assumption | apply st_writesymbol; assumption | apply st_extralitlen; assumption
        | apply st_decodedist; assumption | apply st_extradist; assumption | apply st_rawread; assumption
        | apply st_rawstore; assumption | apply st_writelen; assumption | apply st_blockdone; assumption
        | apply st_hdol1; assumption | apply st_hdol2; assumption | apply st_readadler; assumption
        | (unfold step; rewrite E; apply post_end_other; [exact HJ|discriminate|discriminate|discriminate]) ].
Qed.
End Frame.
