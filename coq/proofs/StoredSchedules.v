(* C02 / C12 / C14 at level 0 for every input and every schedule: whatever a caller's sequence of
   compress() calls (any chunking, any output buffer sizes, flush None / Sync / Full / Finish) has
   received when the compressor model reports Done is a stream that the RFC 1951 / RFC 1950
   specification decodes to exactly the input consumed, using up all of the output. *)
From Coq Require Import NArith ZArith List Bool Lia Arith.
From MZ.lib Require Import Arr Bits Mach.
From MZ.spec Require Import Adler DeflateSpec.
From MZ.model Require Import DeflateCore.
From MZ.proofs Require Import StoredSpec StoredModel StoredRoundtrip StoredStream.
Import ListNotations.
Local Open Scope N_scope.

Lemma GI2_init data flags wb : GI2 data flags wb [] (comp_new flags wb) 0.
Proof.
  unfold GI2. split; [reflexivity|]. left. exists 1. split; [|split; [exact adler_valid_1|split]].
  - unfold BI2, cfix, comp_new, dict_inv, StoredModel.total, BS, emitted.
    cbn [c_flags c_wbits c_sbuf c_sbits c_finished c_adler c_la_pos c_la_size c_cbdp c_total_bytes c_block_index
         c_dict c_pending cb_written rev_append app].
    repeat split; try reflexivity; try lia; eauto.
    exists []. repeat split; try reflexivity. constructor.
  - reflexivity.
  - intros _. reflexivity.
Qed.

Lemma bytes_ok_app a b : bytes_ok (a ++ b) -> bytes_ok a /\ bytes_ok b.
Proof. unfold bytes_ok. intros H. apply Forall_app in H. exact H. Qed.

Lemma chunks_ok_of chunks :
  chunks_small chunks -> bytes_ok (concat chunks) -> chunks_ok chunks.
Proof.
  induction chunks as [|c cs IH]; intros Hs Hb; [constructor|].
  inversion Hs; subst. cbn [concat] in Hb. apply bytes_ok_app in Hb. destruct Hb as [Hb1 Hb2].
  constructor; [split; [exact Hb1|unfold BS in *; lia]|apply IH; assumption].
Qed.

Theorem level0_every_schedule (data : list N) (flags wb : N) sched out n :
  hasf flags FLAG_RAW = true -> wb <= 15 -> bytes_ok data ->
  Forall (fun it => legal_flush (snd it)) sched ->
  drive (comp_new flags wb) data sched [] 0 = Ret (Some (out, n)) ->
  n <= N.of_nat (length data) /\
  exists blocks,
    (if hasf flags FLAG_ZLIB then zlib_spec true out else inflate_spec out)
    = SDone (firstn (N.to_nat n) data) (N.of_nat (length out)) blocks.
Proof.
  intros Hraw Hwb Hbytes Hleg Hd.
  apply (drive_finished data flags wb Hraw Hwb sched _ _ _ _ _ _ Hleg (GI2_init data flags wb)) in Hd;
    [|intros _; reflexivity].
  destruct Hd as (Hn & chunks & last & Hsm & Hl & Hcat & Hout).
  split; [exact Hn|].
  assert (Hbp : bytes_ok (concat chunks ++ last)) by (rewrite Hcat; apply bytes_ok_firstn, Hbytes).
  apply bytes_ok_app in Hbp. destruct Hbp as [Hb1 Hb2].
  pose proof (chunks_ok_of chunks Hsm Hb1) as Hc.
  assert (Hl2 : N.of_nat (length last) <= 65535) by (unfold BS in Hl; lia).
  exists (map (sblk false) chunks ++ [sblk true last]).
  subst out. unfold FIN.
  replace (concat (map (stored_block false) chunks) ++ stored_block true last ++
           (if hasf flags FLAG_ZLIB then be32 (adler32 1 (firstn (N.to_nat n) data)) else []))
    with (stored_stream chunks last ++ (if hasf flags FLAG_ZLIB then be32 (adler32 1 (firstn (N.to_nat n) data)) else []))
    by (rewrite stored_stream_concat, <- app_assoc; reflexivity).
  destruct (hasf flags FLAG_ZLIB) eqn:Z.
  - destruct (hdr_ok_wb flags wb Hwb Z) as (cmf & flg & Eh & Hok). rewrite Eh. cbn [app].
    pose proof (zlib_stored_stream cmf flg chunks last Hok Hc Hb2 Hl2) as Hz. cbv zeta in Hz.
    rewrite Hcat in Hz. rewrite Hz. f_equal.
    assert (Hb : forall a, length (be32 a) = 4%nat) by reflexivity.
    cbn [length]. rewrite app_length, Hb. lia.
  - rewrite (hdr_nonzlib flags wb Z), app_nil_r. cbn [app].
    pose proof (inflate_stored_stream chunks last [] Hc Hb2 Hl2) as Hi. rewrite app_nil_r, Hcat in Hi.
    exact Hi.
Qed.
