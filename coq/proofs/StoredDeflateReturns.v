(* deflate() at level 0 returns: the loop inside deflate() takes at most two turns.  A turn that goes on (status
   Okay, room left in the caller's buffer, and not "input used up without Finish") was a turn that only drained
   pending output, and it leaves nothing pending; a turn starting with nothing pending runs the stored engine to
   the end of the offered input and then either has Finish (stream done, or the buffer is full) or stops for
   lack of input.  With StoredDeflateTotal.v: every schedule of deflate() calls returns a value. *)
From Coq Require Import NArith ZArith List Bool Lia Arith.
From MZ.lib Require Import Arr Bits Mach.
From MZ.spec Require Import Adler DeflateSpec.
From MZ.model Require Import DeflateCore.
From MZ.proofs Require Import IterPow DeflateCounts StoredSpec StoredModel StoredStream StoredSchedules StoredDeflate
                              StoredTotal StoredStreamTotal StoredDeflateTotal StoredProgress StoredVecTotal.
Import ListNotations.
Local Open Scope N_scope.
Arguments N.add : simpl never.
Arguments N.sub : simpl never.
Arguments N.mul : simpl never.
Arguments N.min : simpl never.
Arguments N.ltb : simpl never.
Arguments N.leb : simpl never.
Arguments N.eqb : simpl never.

Lemma flush_output_flush c cb bytes n c' cb' :
  flush_output c cb bytes = (n, c', cb') -> c_flush c' = c_flush c.
Proof.
  unfold flush_output. destruct (N.of_nat (length bytes) =? 0); [intros H; inversion H; subst; reflexivity|].
  destruct cb as [len w ofs|acc w calls].
  - destruct (ntake bytes (len - ofs)) as [[now later] k]. intros H; inversion H; subst. destruct later; reflexivity.
  - destruct acc as [[|a]|]; intros H; inversion H; subst; reflexivity.
Qed.

Lemma nonempty_ofs2 L cb : cb_ok L cb -> 0 < ofs_of cb -> cb_written cb <> [].
Proof.
  intros Hok Hp X. pose proof (written_ofs L cb Hok) as E. rewrite X in E. cbn [length] in E. rewrite <- E in Hp.
  exact (N.lt_irrefl _ Hp).
Qed.

Lemma ofs_le2 L cb : cb_ok L cb -> ofs_of cb <= L.
Proof. destruct cb as [len w ofs|]; cbn; [|contradiction]. intros (H0 & H1 & H2). rewrite <- H0. exact H2. Qed.

Lemma flush_output_fields2 c cb bytes n c' cb' :
  flush_output c cb bytes = (n, c', cb') ->
  c_la_size c' = c_la_size c /\ c_finished c' = c_finished c.
Proof.
  unfold flush_output. destruct (N.of_nat (length bytes) =? 0); [intros H; inversion H; subst; split; reflexivity|].
  destruct cb as [len w ofs|acc w calls].
  - destruct (ntake bytes (len - ofs)) as [[now later] k]. destruct later; intros H; inversion H; subst; split; reflexivity.
  - destruct (match acc with Some 0 => false | _ => true end); intros H; inversion H; subst; split; reflexivity.
Qed.

Section D.
Variables (data : list N) (flags wb : N).
Hypothesis Hraw : hasf flags FLAG_RAW = true.
Hypothesis Hwb : wb <= 15.

Notation GI2' := (GI2 data flags wb).
Notation BI2' := (BI2 data flags wb).

(* a call of compress() returns; if it reports Okay and has left room in the caller's buffer, nothing is pending,
   and unless the call only drained pending output it has taken all the offered input without Finish *)
Lemma compress_room2 R c n input E out_len f :
  N.of_nat (length input) + 259 < 2 ^ 40 ->
  legal_flush f -> GI2' R c n -> Dz c ->
  (c_finished c = false -> n <= E /\ E <= total data /\ input = slice data n E) ->
  exists r, compress c input out_len f = Ret (CRet r) /\
            (r_status r = TOkay -> N.of_nat (length (r_out r)) < out_len ->
             c_pending (r_comp r) = [] /\
             (c_pending c <> [] \/ (r_in r = N.of_nat (length input) /\ f <> TF_FINISH))) /\
            ((c_flush c = TF_FINISH -> f = TF_FINISH) -> r_status r = TOkay \/ r_status r = TDone) /\
            (r_status r = TOkay -> N.of_nat (length (r_out r)) < out_len -> c_pending c = [] -> f <> TF_NONE ->
             c_total_bytes (r_comp r) = 0 /\ c_la_size (r_comp r) = 0 /\ c_finished (r_comp r) = false) /\
            (r_status r = TOkay -> 0 < out_len -> input <> [] \/ f <> TF_NONE \/ c_pending c <> [] ->
             0 < r_in r \/ r_out r <> []) /\
            (r_status r = TOkay -> N.of_nat (length (r_out r)) < out_len -> c_pending c = [] ->
             f = TF_SYNC \/ f = TF_FULL -> exists pre, r_out r = pre ++ sync_marker).
Proof.
  intros Hsmall Hlf HGI HDz Hpre. pose proof HGI as [Hprev HG].
  unfold compress, compress_inner. rewrite Hprev. cbn [negb orb].
  destruct (negb (negb (c_flush c =? TF_FINISH) || (f =? TF_FINISH))) eqn:Ebad.
  { eexists. split; [reflexivity|]. cbn [r_status]. split; [discriminate|]. split; [|split; [discriminate|split; discriminate]].
    intros Hff. exfalso. apply negb_true_iff, orb_false_iff in Ebad. destruct Ebad as [B1 B2].
    apply negb_false_iff, N.eqb_eq in B1. apply N.eqb_neq in B2. exact (B2 (Hff B1)). }
  set (c0 := set_flush c f).
  set (cb0 := CBuf out_len [] 0).
  assert (Hcb0 : cb_ok out_len cb0) by (unfold cb0; cbn; repeat split; lia).
  assert (Hdrain : forall st c' cb', flush_output_buffer c0 cb0 = (st, c', cb') ->
            (c_finished c = true \/ c_pending c <> []) ->
            exists r, Ret (CRet {| r_status := st; r_in := 0; r_out := cb_written cb'; r_comp := set_prev c' st; r_cb := cb' |})
                      = Ret (CRet r) /\
                      (r_status r = TOkay -> N.of_nat (length (r_out r)) < out_len ->
                       c_pending (r_comp r) = [] /\ c_pending c <> []) /\
                      (r_status r = TOkay \/ r_status r = TDone) /\
                      (r_status r = TOkay -> 0 < out_len -> r_out r <> [])).
  { intros st c' cb' Hf Hcase. eexists. split; [reflexivity|]. cbn [r_status r_out r_comp r_in].
    pose proof (fob_PF out_len _ _ _ _ _ Hcb0 Hf) as ([Hok' Hfull] & _ & Hstrict).
    split; [|split].
    3:{ intros Est Hol. apply (nonempty_ofs2 out_len cb' Hok').
        change (c_pending c0) with (c_pending c) in Hstrict. cbn [cb0 ofs_of] in Hstrict.
        destruct (c_pending c) as [|x l] eqn:Hpc.
        - destruct Hcase as [Hfin|Hp]; [|contradiction]. exfalso.
          apply fob_vout in Hf. destruct Hf as (Hv & _ & _ & Est').
          cbn [cb_written rev_append app] in Hv. change (c_pending c0) with (c_pending c) in Hv. rewrite Hpc in Hv.
          apply app_eq_nil in Hv. destruct Hv as [_ Hv].
          change (c_finished c0) with (c_finished c) in Est'. rewrite Hfin, Hv in Est'. cbn [andb] in Est'. congruence.
        - apply Hstrict; [discriminate|exact Hol]. }
    2:{ apply fob_vout in Hf. destruct Hf as (_ & _ & _ & Est'). rewrite Est'. match goal with |- context [if ?b then TDone else TOkay] => destruct b end; auto. }
    intros Est Hroom. rewrite (written_ofs out_len cb' Hok') in Hroom.
    assert (Hp' : c_pending c' = []).
    { destruct (c_pending c') as [|x l]; [reflexivity|]. rewrite Hfull in Hroom by discriminate. lia. }
    split; [cbn [set_prev mkc c_pending]; exact Hp'|].
    destruct Hcase as [Hfin|Hp]; [|exact Hp].
    apply fob_vout in Hf. destruct Hf as (_ & _ & _ & Est').
    change (c_finished c0) with (c_finished c) in Est'. rewrite Hfin, Hp' in Est'. cbn [andb] in Est'. congruence. }
  assert (Hdrain' : forall st c' cb', flush_output_buffer c0 cb0 = (st, c', cb') ->
            (c_finished c = true \/ c_pending c <> []) ->
            exists r, Ret (CRet {| r_status := st; r_in := 0; r_out := cb_written cb'; r_comp := set_prev c' st; r_cb := cb' |})
                      = Ret (CRet r) /\
                      (r_status r = TOkay -> N.of_nat (length (r_out r)) < out_len ->
                       c_pending (r_comp r) = [] /\
                       (c_pending c <> [] \/ (r_in r = N.of_nat (length input) /\ f <> TF_FINISH))) /\
                      ((c_flush c = TF_FINISH -> f = TF_FINISH) -> r_status r = TOkay \/ r_status r = TDone) /\
                      (r_status r = TOkay -> N.of_nat (length (r_out r)) < out_len -> c_pending c = [] -> f <> TF_NONE ->
                       c_total_bytes (r_comp r) = 0 /\ c_la_size (r_comp r) = 0 /\ c_finished (r_comp r) = false) /\
                      (r_status r = TOkay -> 0 < out_len -> input <> [] \/ f <> TF_NONE \/ c_pending c <> [] ->
                       0 < r_in r \/ r_out r <> []) /\
                      (r_status r = TOkay -> N.of_nat (length (r_out r)) < out_len -> c_pending c = [] ->
                       f = TF_SYNC \/ f = TF_FULL -> exists pre, r_out r = pre ++ sync_marker)).
  { intros st c' cb' Hf Hcase. destruct (Hdrain st c' cb' Hf Hcase) as (r & Er & H1 & H2 & H4).
    exists r. split; [exact Er|]. split; [|split; [intros _; exact H2|split; [|split]]].
    - intros Est Hroom. destruct (H1 Est Hroom) as [X Y]. split; [exact X|left; exact Y].
    - intros Est Hroom Hpc. destruct (H1 Est Hroom) as [_ Y]. contradiction.
    - intros Est Hol _. right. exact (H4 Est Hol).
    - intros Est Hroom Hpc. destruct (H1 Est Hroom) as [_ Y]. contradiction. }
  clear Hdrain.
  change (c_pending c0) with (c_pending c). change (c_finished c0) with (c_finished c).
  change (c_flags c0) with (c_flags c).
  destruct HG as [(A & HBI & HAv & Hn & Had)|[Hfin Hfw]].
  2:{ rewrite Hfin, orb_true_r.
      destruct (flush_output_buffer c0 cb0) as [[st c'] cb'] eqn:Ef.
      apply (Hdrain' st c' cb'); [first [exact Ef|reflexivity]|left; exact Hfin]. }
  pose proof (adler_lt wb Hwb A HAv) as HA.
  pose proof HBI as (Hfix & Hle & Hlp & Htb & Hls & Hd & Hcbuf & Hem).
  destruct Hfix as (F1 & F2 & F3 & F4 & F5 & F6).
  rewrite F5, orb_false_r.
  destruct (Hpre F5) as (HnE & HEt & Hin). clear Hpre.
  destruct (c_pending c) as [|p ps] eqn:Hpe; cbn [negb].
  2:{ destruct (flush_output_buffer c0 cb0) as [[st c'] cb'] eqn:Ef.
      apply (Hdrain' st c' cb'); [first [exact Ef|reflexivity]|right; discriminate]. }
  clear Hdrain'.
  rewrite F1, Hraw. cbn [negb].
  assert (HBI0 : BI2' R A c0 cb0).
  { unfold BI2, cfix, c0, cb0.
    cbn [set_flush mkc c_flags c_wbits c_sbuf c_sbits c_finished c_adler c_la_pos c_la_size
         c_cbdp c_total_bytes c_block_index c_dict c_pending].
    repeat split; try assumption; eauto.
    all: try (destruct Hem as (chunks & H1 & H2 & H3 & H4); exists chunks;
              cbn [set_flush mkc c_cbdp c_block_index c_pending cb_written rev_append app] in *;
              try rewrite Hpe in *; repeat split; assumption). }
  subst n.
  pose proof (compress_stored_post2 data flags wb Hraw Hwb R A c0 cb0 input E f HA Hlf HBI0 eq_refl Hpe HnE HEt Hin) as HS.
  pose proof (compress_stored_np2 data flags wb Hraw Hwb R A c0 cb0 input E f HA Hlf HBI0 eq_refl Hpe HDz HnE HEt Hin) as HSn.
  change (c_la_pos c0 + c_la_size c0) with (c_la_pos c + c_la_size c) in HS.
  destruct (compress_stored_returns data flags wb Hraw Hwb R A c0 cb0 input E f HA Hlf HBI0 eq_refl Hpe HDz HnE HEt Hin)
    as (ok & c1 & cb1 & src & Ecs).
  { change (c_la_size c0) with (c_la_size c). lia. }
  pose proof (compress_stored_PF out_len c0 cb0 input _ _ _ _ Hcb0 Hpe Ecs) as [[Hok1 Hfull1] _].
  rewrite Ecs in HS, HSn |- *. cbn [bind].
  destruct HS as (Hok & HBI1 & Hfl1 & Hsrc & HsrcE & Hend). subst ok.
  unfold SQnp in HSn.
  pose proof HBI1 as (Hfix1 & Hle1 & Hlp1 & Htb1 & Hls1 & Hd1 & Hcbuf1 & Hem1).
  destruct Hfix1 as (G1 & G2 & G3 & G4 & G5 & G6).
  assert (Hilen : N.of_nat (length input) = E - (c_la_pos c + c_la_size c)).
  { rewrite Hin. apply (slice_length data wb Hwb); assumption. }
  set (c2 := if hasf (c_flags c1) FLAG_ZLIB || hasf (c_flags c1) FLAG_ADLER
             then set_adler c1 (adler32 (c_adler c1) (firstn (N.to_nat src) input)) else c1).
  assert (H2 : c_flags c2 = flags /\ c_wbits c2 = wb /\ c_sbuf c2 = 0 /\ c_sbits c2 = 0 /\
               c_flush c2 = f /\ c_pending c2 = c_pending c1 /\ c_la_pos c2 = c_la_pos c1 /\
               c_la_size c2 = c_la_size c1 /\ c_cbdp c2 = c_cbdp c1 /\ c_total_bytes c2 = c_total_bytes c1 /\
               c_dsize c2 = c_dsize c1).
  { unfold c2. rewrite G1. destruct (hasf flags FLAG_ZLIB || hasf flags FLAG_ADLER);
      cbn [set_adler mkc c_flags c_wbits c_sbuf c_sbits c_finished c_adler c_la_pos c_la_size c_flush c_prev
           c_cbdp c_total_bytes c_block_index c_dict c_pending c_dsize]; repeat split; try assumption; try reflexivity. }
  destruct H2 as (K1 & K2 & K3 & K4 & Hfl2 & Hpe2 & Hlp2 & Hls2 & Hcb2 & Htb2 & Hds2).
  clearbody c2.
  rewrite Hfl2, Hls2, Hpe2.
  match goal with |- exists _, bind (if ?b then _ else _) _ = _ /\ _ => destruct b eqn:Efin end.
  - apply andb_true_iff in Efin. destruct Efin as [E0 E2]. apply andb_true_iff in E0. destruct E0 as [Enn E1].
    apply negb_true_iff, orb_false_iff in E2. destruct E2 as [E2 E3].
    apply negb_false_iff in E3. destruct (c_pending c1) as [|? ?] eqn:Hp1; [|discriminate]. clear E3.
    apply negb_false_iff, N.eqb_eq in E2.
    rewrite (flush_block_gen_eq c2 cb1 f);
      [|rewrite K1; exact Hraw|exact K3|exact K4|rewrite K2; exact Hwb|exact Hlf|exact Hpe2
       |rewrite Htb2; unfold BS in *; lia|rewrite Hlp2, Hcb2, Htb2; exact Hlp1
       |unfold Dz in HSn; rewrite Htb2, Hds2; exact HSn].
    cbn [bind].
    destruct (flush_output (after_block c2) cb1 (gblock_bytes c2 f)) as [[nn c3] cb3] eqn:Efo.
    assert (Hn0 : (0 <= nn)%Z).
    { destruct Hcbuf1 as (len1 & w1 & ofs1 & Ecb1). rewrite Ecb1 in Efo.
      exact (flush_output_nonneg wb Hwb _ _ _ _ _ _ _ _ Efo). }
    assert (Hpa : c_pending (after_block c2) = []) by (unfold after_block; cbn [mkc c_pending]; exact Hpe2).
    pose proof (flush_output_PF out_len (after_block c2) _ _ _ _ _ Hok1 Hpa Efo) as ([Hok3 _] & Hmono3 & Hstrict3 & _).
    pose proof (flush_output_flush _ _ _ _ _ _ Efo) as Hfl3.
    unfold after_block in Hfl3. cbn [mkc c_flush] in Hfl3. rewrite Hfl2 in Hfl3.
    replace (nn <? 0)%Z with false by (symmetry; apply Z.ltb_ge; exact Hn0).
    cbn [bind].
    set (c4 := if c_flush (set_finished c3 (c_flush c3 =? TF_FINISH)) =? TF_FULL
               then set_dsize (set_finished c3 (c_flush c3 =? TF_FINISH)) 0
               else set_finished c3 (c_flush c3 =? TF_FINISH)).
    assert (Hpend4 : c_pending c4 = c_pending c3).
    { unfold c4. destruct (_ =? TF_FULL); reflexivity. }
    assert (Hfin4 : c_finished c4 = (f =? TF_FINISH)).
    { unfold c4. destruct (_ =? TF_FULL); cbn [set_dsize set_finished mkc c_finished]; rewrite Hfl3; reflexivity. }
    assert (Hc4 : c_total_bytes c4 = 0 /\ c_la_size c4 = 0).
    { pose proof (flush_output_fields _ _ _ _ _ _ Efo) as [Et3 _].
      pose proof (flush_output_fields2 _ _ _ _ _ _ Efo) as [El3 _].
      unfold after_block in Et3, El3. cbn [mkc c_total_bytes c_la_size] in Et3, El3.
      apply N.eqb_eq in E1.
      unfold c4. destruct (_ =? TF_FULL); cbn [set_dsize set_finished mkc c_total_bytes c_la_size];
        rewrite Et3, El3, Hls2, E1; split; reflexivity. }
    clearbody c4.
    destruct (flush_output_buffer c4 cb3) as [[st c5] cb5] eqn:Ef5.
    pose proof (fob_PF out_len _ _ _ _ _ Hok3 Ef5) as ([Hok5 Hfull5] & Hmono5 & _).
    destruct cb3 as [len3 w3 ofs3|]; [|cbn in Hok3; contradiction].
    pose proof (fob_vout _ _ _ _ _ _ _ Ef5) as (_ & _ & Ec5 & Est5).
    assert (Hroom5 : N.of_nat (length (cb_written cb5)) < out_len -> c_pending c5 = []).
    { intros Hroom. rewrite (written_ofs out_len cb5 Hok5) in Hroom.
      destruct (c_pending c5) as [|x l]; [reflexivity|]. rewrite Hfull5 in Hroom by discriminate. lia. }
    eexists. split; [reflexivity|]. cbn [r_status r_out r_comp r_in].
    split; [|split; [|split; [|split]]].
    + intros Est Hroom. pose proof (Hroom5 Hroom) as Hp5.
      split; [cbn [set_prev mkc c_pending]; exact Hp5|]. right.
      split; [lia|].
      intros ->. rewrite Hfin4, Hp5 in Est5. change (TF_FINISH =? TF_FINISH) with true in Est5. cbn [andb] in Est5. congruence.
    + intros _. rewrite Est5. match goal with |- context [if ?b then TDone else TOkay] => destruct b end; auto.
    + intros Est Hroom _ _. pose proof (Hroom5 Hroom) as Hp5. destruct Hc4 as [Ht4 Hl4].
      rewrite Ec5. cbn [set_prev set_pending mkc c_total_bytes c_la_size c_finished].
      split; [exact Ht4|]. split; [exact Hl4|].
      rewrite Hp5, andb_true_r in Est5. destruct (c_finished c4); [congruence|reflexivity].
    + intros _ Hol _. right. apply (nonempty_ofs2 out_len cb5 Hok5).
      assert (Hne : gblock_bytes c2 f <> []).
      { apply negb_true_iff, N.eqb_neq in Enn. unfold gblock_bytes, sync_marker, stored_block.
        destruct Hlf as [X|[X|[X|X]]]; [contradiction|rewrite X|rewrite X|rewrite X]; cbn [N.eqb orb];
          intros Y; apply app_eq_nil in Y; destruct Y as [_ Y]; apply app_eq_nil in Y; destruct Y as [Y1 Y2];
          first [discriminate Y2 | discriminate Y1 | (destruct (0 <? c_total_bytes c2); discriminate Y1)]. }
      pose proof (ofs_le2 out_len cb1 Hok1) as Hofs1.
      specialize (Hstrict3 Hne). cbn [ofs_of] in Hmono5, Hstrict3, Hmono3.
      destruct (N.ltb_spec (ofs_of cb1) out_len) as [Hlt|Hge]; [specialize (Hstrict3 Hlt); lia|lia].
    + (* everything of the flushed block has been delivered, and it ends with the marker *)
      intros _ Hroom _ Hsf. pose proof (Hroom5 Hroom) as Hp5.
      assert (Hne : gblock_bytes c2 f <> []).
      { unfold gblock_bytes, sync_marker, stored_block. destruct Hsf as [X|X]; rewrite X; cbn [N.eqb orb];
          intros Y; apply app_eq_nil in Y; destruct Y as [_ Y]; apply app_eq_nil in Y; destruct Y as [_ Y2]; discriminate Y2. }
      destruct cb1 as [len1 w1 ofs1|]; [|cbn in Hok1; contradiction].
      destruct (flush_output_vout wb Hwb _ _ _ _ _ _ _ _ Hpa Hne Efo) as (Ev3 & _ & _ & _).
      destruct (fob_vout _ _ _ _ _ _ _ Ef5) as (Ev5 & _ & _ & _).
      rewrite Hp5, app_nil_r in Ev5.
      assert (Hp4 : c_pending c4 = c_pending c3) by exact Hpend4.
      rewrite Hp4 in Ev5. rewrite Ev5, Ev3.
      exists (cb_written (CBuf len1 w1 ofs1) ++
              (if hasf (c_flags c2) FLAG_ZLIB && (c_block_index c2 =? 0) then hdr (c_flags c2) (c_wbits c2) else []) ++
              (if (0 <? c_total_bytes c2) || (f =? TF_FINISH)
               then stored_block (f =? TF_FINISH) (dict_range (c_dict c2) (N.land (c_cbdp c2) DMASK) (c_total_bytes c2)) else [])).
      unfold gblock_bytes. destruct Hsf as [X|X]; rewrite X; cbn [N.eqb orb]; rewrite <- !app_assoc; reflexivity.
  - cbn [bind].
    destruct (flush_output_buffer c2 cb1) as [[st c3] cb3] eqn:Ef3.
    pose proof (fob_PF out_len _ _ _ _ _ Hok1 Ef3) as ([Hok3 Hfull3] & Hmono3 & _).
    assert (Hroom3 : N.of_nat (length (cb_written cb3)) < out_len ->
                     c_pending c3 = [] /\ c_pending c1 = [] /\ N.of_nat (length input) - src = 0).
    { intros Hroom. rewrite (written_ofs out_len cb3 Hok3) in Hroom.
      split; [destruct (c_pending c3) as [|x l]; [reflexivity|]; rewrite Hfull3 in Hroom by discriminate; lia|].
      destruct (c_pending c1) as [|x later] eqn:Hp1.
      2:{ rewrite Hfull1 in Hmono3 by discriminate. lia. }
      split; [reflexivity|]. destruct (Hend eq_refl) as [HE _]. lia. }
    eexists. split; [reflexivity|]. cbn [r_status r_out r_comp r_in].
    split; [|split; [|split; [|split]]].
    + intros Est Hroom. destruct (Hroom3 Hroom) as (Hp3 & Hp1 & Hil).
      split; [cbn [set_prev mkc c_pending]; exact Hp3|]. right.
      destruct (Hend Hp1) as [HE Hz].
      split; [lia|].
      intros ->. rewrite (Hz ltac:(discriminate)), Hp1, Hil in Efin. cbn in Efin. discriminate Efin.
    + intros _. destruct cb1 as [len1 w1 ofs1|]; [|cbn in Hok1; contradiction].
      apply fob_vout in Ef3. destruct Ef3 as (_ & _ & _ & Est3). rewrite Est3. match goal with |- context [if ?b then TDone else TOkay] => destruct b end; auto.
    + intros Est Hroom _ Hnn. exfalso. destruct (Hroom3 Hroom) as (Hp3 & Hp1 & Hil).
      destruct (Hend Hp1) as [HE Hz].
      rewrite (Hz Hnn), Hp1, Hil in Efin.
      replace (f =? TF_NONE) with false in Efin by (symmetry; apply N.eqb_neq; exact Hnn).
      cbn in Efin. discriminate Efin.
    + intros _ Hol Hcase.
      destruct (c_pending c1) as [|x later] eqn:Hp1.
      2:{ right. apply (nonempty_ofs2 out_len cb3 Hok3). rewrite Hfull1 in Hmono3 by discriminate. lia. }
      destruct (Hend eq_refl) as [HE Hz].
      destruct Hcase as [Hi|[Hnn|Hp]]; [|exfalso|contradiction].
      * left. destruct input; [contradiction|cbn [length] in Hilen; lia].
      * assert (Hil : N.of_nat (length input) - src = 0) by lia.
        rewrite (Hz Hnn), Hil in Efin.
        replace (f =? TF_NONE) with false in Efin by (symmetry; apply N.eqb_neq; exact Hnn).
        cbn in Efin. discriminate Efin.
    + intros _ Hroom _ Hsf. exfalso. destruct (Hroom3 Hroom) as (Hp3 & Hp1 & Hil).
      assert (Hnn : f <> TF_NONE) by (destruct Hsf as [X|X]; rewrite X; discriminate).
      destruct (Hend Hp1) as [HE Hz].
      rewrite (Hz Hnn), Hp1, Hil in Efin.
      replace (f =? TF_NONE) with false in Efin by (symmetry; apply N.eqb_neq; exact Hnn).
      cbn in Efin. discriminate Efin.
Qed.

Notation DGI' := (DGI data flags wb).

Definition pend01 (s : dfstate) : nat := match c_pending (ds_c s) with [] => 0 | _ => 1 end.

(* a turn of the loop inside deflate() that goes on was a draining turn, and leaves nothing pending *)
Lemma deflate_turn_step R n E f s s' :
  legal_mz_flush f -> DLI data flags wb R n E s -> Dz (ds_c s) ->
  N.of_nat (length (ds_in s)) + 259 < 2 ^ 40 ->
  deflate_turn f s = inl s' ->
  (pend01 s' < pend01 s)%nat /\ N.of_nat (length (ds_in s')) + 259 < 2 ^ 40.
Proof.
  intros Hf [HG Hin] HDz Hsmall. unfold deflate_turn.
  destruct (legal_mz_td f Hf) as [Hlf Htd]. rewrite Htd in *.
  destruct (compress_room2 _ _ _ (ds_in s) E (ds_room s) f Hsmall Hlf HG HDz Hin) as (r & Er & Hroom & _ & _ & _ & _).
  rewrite Er. cbv zeta.
  destruct (r_status r) eqn:Est; try discriminate.
  destruct (ds_room s - N.of_nat (length (r_out r)) =? 0) eqn:Eroom; [discriminate|].
  apply N.eqb_neq in Eroom.
  destruct (Hroom eq_refl ltac:(lia)) as [Hp' Hcase].
  destruct (match skipn (N.to_nat (r_in r)) (ds_in s) with [] => true | _ => false end && negb (f =? 4)) eqn:Estop.
  - destruct (_ || _); discriminate.
  - intros H; inversion H; subst s'; clear H. unfold pend01. cbn [ds_c ds_in]. rewrite Hp'.
    destruct Hcase as [Hp | [Hrin Hnf]].
    + split; [destruct (c_pending (ds_c s)); [contradiction|lia]|]. rewrite skipn_length. lia.
    + exfalso. rewrite Hrin, Nat2N.id, skipn_all in Estop. cbn [andb] in Estop.
      apply negb_false_iff, N.eqb_eq in Estop. apply Hnf. rewrite Estop. reflexivity.
Qed.

Definition DRr (r : res dres) : Prop :=
  match r with Ret (DRet code ncons out c') => True | _ => False end.

Lemma deflate_turn_ret R n E f s :
  legal_mz_flush f -> DLI data flags wb R n E s -> Dz (ds_c s) ->
  N.of_nat (length (ds_in s)) + 259 < 2 ^ 40 ->
  match deflate_turn f s with inl _ => True | inr r => DRr r end.
Proof.
  intros Hf [HG Hin] HDz Hsmall. unfold deflate_turn.
  destruct (legal_mz_td f Hf) as [Hlf Htd]. rewrite Htd in *.
  destruct (compress_room2 _ _ _ (ds_in s) E (ds_room s) f Hsmall Hlf HG HDz Hin) as (r & Er & _ & _ & _ & _ & _).
  rewrite Er. cbv zeta.
  destruct (r_status r); try exact I.
  destruct (_ =? 0); [exact I|].
  destruct (_ && _); [destruct (_ || _); exact I|exact I].
Qed.

(* deflate() returns *)
Lemma deflate_returns R c n E input out_len f :
  legal_mz_flush f -> DGI' R c n -> Dz c ->
  (c_finished c = false -> n <= E /\ E <= total data /\ input = slice data n E) ->
  N.of_nat (length input) + 259 < 2 ^ 40 ->
  exists code ncons out c', deflate c input out_len f = Ret (DRet code ncons out c').
Proof.
  intros Hf HD HDz Hin Hsmall. unfold deflate.
  destruct (out_len =? 0); [eauto|].
  destruct (c_prev c) eqn:Ep.
  4:{ destruct (f =? 4); eauto. }
  all: destruct HD as [HG|[Hp _]]; [|congruence].
  all: try (destruct HG as [Hp _]; congruence).
  set (s0 := {| ds_c := c; ds_in := input; ds_room := out_len; ds_tin := 0; ds_rout := [] |}).
  set (I := fun s => DLI data flags wb R n E s /\ Dz (ds_c s) /\ N.of_nat (length (ds_in s)) + 259 < 2 ^ 40).
  assert (H0 : I s0).
  { split; [|split; [exact HDz|exact Hsmall]].
    unfold DLI, s0. cbn [ds_c ds_in ds_tin ds_rout rev]. rewrite app_nil_r, N.add_0_r. split; [exact HG|exact Hin]. }
  assert (H1 : forall s s', I s -> deflate_turn f s = inl s' -> I s' /\ (pend01 s' < pend01 s)%nat).
  { intros s s' (Hs & Hz & Hsm) Et.
    destruct (deflate_turn_step R n E f s s' Hf Hs Hz Hsm Et) as [Hlt Hsm'].
    split; [|exact Hlt]. split; [|split; [|exact Hsm']].
    - pose proof (deflate_turn_DLI data flags wb Hraw Hwb R n E f Hf s Hs) as X. rewrite Et in X. exact X.
    - pose proof (deflate_turn_np data flags wb Hraw Hwb R n E f s Hf Hs Hz) as X. rewrite Et in X. exact X. }
  destruct (steps_measure' (deflate_turn f) I pend01 H1 2%nat s0 H0) as [r Hr].
  { unfold pend01. destruct (c_pending (ds_c s0)); lia. }
  assert (Hle : (2 <= 2 ^ 40)%nat).
  { change 2%nat with (2 ^ 1)%nat at 1. apply Nat.pow_le_mono_r; lia. }
  rewrite (iter_pow_inr (deflate_turn f) _ 40 s0 r Hr Hle).
  assert (HQ : DRr r).
  { pose proof (steps_inv (deflate_turn f) I DRr) as X.
    assert (X1 : forall s s', I s -> deflate_turn f s = inl s' -> I s') by (intros s s' Hs Et; exact (proj1 (H1 s s' Hs Et))).
    assert (X2 : forall s r0, I s -> deflate_turn f s = inr r0 -> DRr r0).
    { intros s r0 (Hs & Hz & Hsm) Et. pose proof (deflate_turn_ret R n E f s Hf Hs Hz Hsm) as Y. rewrite Et in Y. exact Y. }
    specialize (X X1 X2 2%nat s0 H0). rewrite Hr in X. exact X. }
  destruct r as [[code ncons out c'|]| |]; try contradiction. eauto.
Qed.

(* every schedule of deflate() calls returns *)
Theorem ddrive_returns : N.of_nat (length data) + 259 < 2 ^ 40 -> forall sched c rest acc n,
  Forall (fun it => legal_mz_flush (snd it)) sched ->
  DGI' acc c n -> Dz c -> (c_finished c = false -> rest = skipn (N.to_nat n) data) ->
  (exists k, rest = skipn k data) ->
  exists result, ddrive c rest sched acc n = Ret result.
Proof.
  intros Hsmall. induction sched as [|[[m out_len] f] sched IH]; intros c rest acc n Hleg HD HDz Hrest Hsuf; cbn [ddrive];
    [eexists; reflexivity|].
  inversion Hleg as [|it its Hf Hl']; subst. cbn [snd] in Hf.
  assert (Hn : c_finished c = false -> n <= total data).
  { intros Hnf. destruct HD as [[_ [(A & HBI & _ & Hn & _)|[Hfin _]]]|[_ (Hn & _)]]; [|congruence|exact Hn].
    destruct HBI as (_ & Hle & _). lia. }
  assert (Hpre : c_finished c = false ->
                 n <= N.min (n + m) (total data) /\ N.min (n + m) (total data) <= total data /\
                 firstn (N.to_nat m) rest = slice data n (N.min (n + m) (total data))).
  { intros Hnf. specialize (Hn Hnf). split; [lia|]. split; [lia|].
    rewrite (Hrest Hnf). unfold slice. rewrite firstn_min, skipn_length. f_equal. unfold total in *. lia. }
  assert (Hlen : N.of_nat (length (firstn (N.to_nat m) rest)) + 259 < 2 ^ 40).
  { destruct Hsuf as [k ->]. rewrite firstn_length, skipn_length. lia. }
  destruct (deflate_returns acc c n _ _ out_len f Hf HD HDz Hpre Hlen) as (code & ncons & o & c' & Ed).
  pose proof (deflate_np data flags wb Hraw Hwb acc c n _ _ out_len f Hf HD HDz Hpre) as Hnp.
  rewrite Ed in Hnp |- *. cbn [bind].
  pose proof (deflate_DGI data flags wb Hraw Hwb acc c n _ _ out_len f _ Hf HD Hpre Ed) as Hp.
  unfold dpost in Hp. unfold DRnp in Hnp.
  destruct (code =? D_MZ_STREAM_END)%Z; [eexists; reflexivity|].
  destruct ((code =? D_MZ_OK)%Z || (code =? D_MZ_ERR_BUF)%Z); [|eexists; reflexivity].
  apply (IH c' _ _ _ Hl' Hp Hnp); [|destruct Hsuf as [k ->]; exists (k + N.to_nat ncons)%nat; apply skipn_skipn_add].
  intros Hnf'.
  assert (Hcf : c_finished c = false).
  { destruct (c_finished c) eqn:Hfin; [|reflexivity].
    rewrite (deflate_keeps_finished _ _ _ _ _ _ _ _ Hfin Ed) in Hnf'. discriminate. }
  rewrite (Hrest Hcf), skipn_skipn_add. f_equal. lia.
Qed.

(* ---- with Finish the call keeps working until the stream ends or the output buffer is completely full *)
Definition DRfin (out_len : N) (r : res dres) : Prop :=
  match r with
  | Ret (DRet code ncons out c') =>
      code = D_MZ_STREAM_END \/ (code = D_MZ_OK /\ N.of_nat (length out) = out_len)
  | _ => True
  end.

Lemma deflate_turn_finish R n E s out_len :
  DLI data flags wb R n E s -> Dz (ds_c s) -> N.of_nat (length (ds_in s)) + 259 < 2 ^ 40 ->
  ds_room s + N.of_nat (length (ds_rout s)) = out_len ->
  match deflate_turn 4 s with
  | inl s' => ds_room s' + N.of_nat (length (ds_rout s')) = out_len
  | inr r => DRfin out_len r
  end.
Proof.
  intros [HG Hin] HDz Hsmall HJ. unfold deflate_turn.
  change (tdflush_of_mz 4) with 4.
  assert (Hlf : legal_flush 4) by (unfold legal_flush; cbn; tauto).
  destruct (compress_room2 _ _ _ (ds_in s) E (ds_room s) 4 Hsmall Hlf HG HDz Hin) as (r & Er & _ & Hst & _ & _ & _).
  pose proof (compress_counts _ _ _ _ _ Er) as [_ Hrout].
  rewrite Er. cbv zeta.
  specialize (Hst (fun _ => eq_refl)).
  destruct Hst as [Hst|Hst]; rewrite Hst.
  - destruct (ds_room s - N.of_nat (length (r_out r)) =? 0) eqn:Eroom.
    + apply N.eqb_eq in Eroom. unfold DRfin. right. split; [reflexivity|].
      rewrite !rev_append_rev, app_nil_r, rev_length, app_length, rev_length. lia.
    + change (4 =? 4) with true. cbn [negb]. rewrite andb_false_r.
      cbn [ds_room ds_rout]. rewrite rev_append_rev, app_length, rev_length. lia.
  - unfold DRfin. left. reflexivity.
Qed.

Lemma deflate_finish_works R c n E input out_len code ncons out c' :
  DGI' R c n -> Dz c ->
  (c_finished c = false -> n <= E /\ E <= total data /\ input = slice data n E) ->
  N.of_nat (length input) + 259 < 2 ^ 40 -> 0 < out_len ->
  deflate c input out_len 4 = Ret (DRet code ncons out c') ->
  code = D_MZ_STREAM_END \/ (code = D_MZ_OK /\ N.of_nat (length out) = out_len).
Proof.
  intros HD HDz Hin Hsmall Hol. unfold deflate.
  assert (Hf : legal_mz_flush 4) by (unfold legal_mz_flush; tauto).
  replace (out_len =? 0) with false by (symmetry; apply N.eqb_neq; lia).
  destruct (c_prev c) eqn:Ep.
  4:{ change (4 =? 4) with true. cbv iota. intros H; inversion H; subst. left. reflexivity. }
  all: destruct HD as [HG|[Hp _]]; [|congruence].
  all: try (destruct HG as [Hp _]; congruence).
  cbv iota.
  set (s0 := {| ds_c := c; ds_in := input; ds_room := out_len; ds_tin := 0; ds_rout := [] |}).
  set (I := fun s => DLI data flags wb R n E s /\ Dz (ds_c s) /\ N.of_nat (length (ds_in s)) + 259 < 2 ^ 40 /\
                     ds_room s + N.of_nat (length (ds_rout s)) = out_len).
  assert (H0 : I s0).
  { split; [|split; [exact HDz|split; [exact Hsmall|unfold s0; cbn [ds_room ds_rout length]; lia]]].
    unfold DLI, s0. cbn [ds_c ds_in ds_tin ds_rout rev]. rewrite app_nil_r, N.add_0_r. split; [exact HG|exact Hin]. }
  pose proof (iter_pow_inv (deflate_turn 4) I (DRfin out_len)) as H.
  assert (H1 : forall s s', I s -> deflate_turn 4 s = inl s' -> I s').
  { intros s s' (Hs & Hz & Hsm & HJ) Et.
    destruct (deflate_turn_step R n E 4 s s' Hf Hs Hz Hsm Et) as [_ Hsm'].
    split; [|split; [|split; [exact Hsm'|]]].
    - pose proof (deflate_turn_DLI data flags wb Hraw Hwb R n E 4 Hf s Hs) as X. rewrite Et in X. exact X.
    - pose proof (deflate_turn_np data flags wb Hraw Hwb R n E 4 s Hf Hs Hz) as X. rewrite Et in X. exact X.
    - pose proof (deflate_turn_finish R n E s out_len Hs Hz Hsm HJ) as X. rewrite Et in X. exact X. }
  assert (H2 : forall s r, I s -> deflate_turn 4 s = inr r -> DRfin out_len r).
  { intros s r (Hs & Hz & Hsm & HJ) Et.
    pose proof (deflate_turn_finish R n E s out_len Hs Hz Hsm HJ) as X. rewrite Et in X. exact X. }
  specialize (H H1 H2 40%nat s0 H0).
  destruct (iter_pow 40 (deflate_turn 4) s0) as [s'|rr]; [discriminate|].
  intros ->. exact H.
Qed.

(* ---- a call with output space and either input or a flush request makes progress *)
Definition DPG (s : dfstate) : Prop := 0 < ds_tin s \/ ds_rout s <> [].

Definition DRpg (r : res dres) : Prop :=
  match r with
  | Ret (DRet code ncons out c') => code = D_MZ_OK -> 0 < ncons \/ out <> []
  | _ => True
  end.

Lemma rev_append_nonnil (a b : list N) : a <> [] \/ b <> [] -> rev_append a b <> [].
Proof.
  rewrite rev_append_rev. intros [H|H] X; apply app_eq_nil in X; destruct X as [X1 X2]; [|exact (H X2)].
  apply H. destruct a; [reflexivity|]. cbn [rev] in X1. apply app_eq_nil in X1. destruct X1 as [_ X1]. discriminate X1.
Qed.

Lemma deflate_turn_progress R n E f s :
  legal_mz_flush f -> DLI data flags wb R n E s -> Dz (ds_c s) ->
  N.of_nat (length (ds_in s)) + 259 < 2 ^ 40 ->
  0 < ds_room s -> (DPG s \/ ds_in s <> [] \/ f <> 0) ->
  match deflate_turn f s with
  | inl s' => DPG s' /\ 0 < ds_room s'
  | inr r => DRpg r
  end.
Proof.
  intros Hf [HG Hin] HDz Hsmall Hroom0 Hpg. unfold deflate_turn.
  destruct (legal_mz_td f Hf) as [Hlf Htd]. rewrite Htd in *.
  destruct (compress_room2 _ _ _ (ds_in s) E (ds_room s) f Hsmall Hlf HG HDz Hin) as (r & Er & _ & _ & _ & H5 & _).
  rewrite Er. cbv zeta.
  destruct (r_status r) eqn:Est; try (cbn; discriminate).
  assert (HP : 0 < ds_tin s + r_in r \/ rev_append (r_out r) (ds_rout s) <> []).
  { destruct Hpg as [[X|X]|X].
    - left. lia.
    - right. apply rev_append_nonnil. right. exact X.
    - assert (Hc : ds_in s <> [] \/ f <> TF_NONE \/ c_pending (ds_c s) <> []).
      { destruct X as [X|X]; [left; exact X|right; left; exact X]. }
      destruct (H5 eq_refl Hroom0 Hc) as [Y|Y]; [left; lia|right; apply rev_append_nonnil; left; exact Y]. }
  assert (HPo : 0 < ds_tin s + r_in r \/ rev_append (rev_append (r_out r) (ds_rout s)) [] <> []).
  { destruct HP as [X|X]; [left; exact X|right; apply rev_append_nonnil; left; exact X]. }
  destruct (ds_room s - N.of_nat (length (r_out r)) =? 0) eqn:Eroom; [cbn; intros _; exact HPo|].
  apply N.eqb_neq in Eroom.
  destruct (_ && negb (f =? 4)).
  - destruct (_ || _); cbn; [intros _; exact HPo|discriminate].
  - cbn [ds_tin ds_rout ds_room]. split; [exact HP|lia].
Qed.

Lemma deflate_progress R c n E input out_len f code ncons out c' :
  legal_mz_flush f -> DGI' R c n -> Dz c ->
  (c_finished c = false -> n <= E /\ E <= total data /\ input = slice data n E) ->
  N.of_nat (length input) + 259 < 2 ^ 40 ->
  input <> [] \/ f <> 0 ->
  deflate c input out_len f = Ret (DRet code ncons out c') -> code = D_MZ_OK ->
  0 < ncons \/ out <> [].
Proof.
  intros Hf HD HDz Hin Hsmall Hreq. unfold deflate.
  destruct (out_len =? 0) eqn:Eol; [intros H; inversion H; subst; discriminate|]. apply N.eqb_neq in Eol.
  destruct (c_prev c) eqn:Ep.
  4:{ destruct (f =? 4); intros H; inversion H; subst; discriminate. }
  all: destruct HD as [HG|[Hp _]]; [|congruence].
  all: try (destruct HG as [Hp _]; congruence).
  set (s0 := {| ds_c := c; ds_in := input; ds_room := out_len; ds_tin := 0; ds_rout := [] |}).
  set (I := fun s => DLI data flags wb R n E s /\ Dz (ds_c s) /\ N.of_nat (length (ds_in s)) + 259 < 2 ^ 40 /\
                     0 < ds_room s /\ (DPG s \/ ds_in s <> [] \/ f <> 0)).
  assert (H0 : I s0).
  { split; [|split; [exact HDz|split; [exact Hsmall|split; [unfold s0; cbn [ds_room]; lia|right; exact Hreq]]]].
    unfold DLI, s0. cbn [ds_c ds_in ds_tin ds_rout rev]. rewrite app_nil_r, N.add_0_r. split; [exact HG|exact Hin]. }
  pose proof (iter_pow_inv (deflate_turn f) I DRpg) as H.
  assert (H1 : forall s s', I s -> deflate_turn f s = inl s' -> I s').
  { intros s s' (Hs & Hz & Hsm & Hr & Hp) Et.
    destruct (deflate_turn_step R n E f s s' Hf Hs Hz Hsm Et) as [_ Hsm'].
    pose proof (deflate_turn_progress R n E f s Hf Hs Hz Hsm Hr Hp) as X. rewrite Et in X. destruct X as [X1 X2].
    split; [|split; [|split; [exact Hsm'|split; [exact X2|left; exact X1]]]].
    - pose proof (deflate_turn_DLI data flags wb Hraw Hwb R n E f Hf s Hs) as Y. rewrite Et in Y. exact Y.
    - pose proof (deflate_turn_np data flags wb Hraw Hwb R n E f s Hf Hs Hz) as Y. rewrite Et in Y. exact Y. }
  assert (H2 : forall s r, I s -> deflate_turn f s = inr r -> DRpg r).
  { intros s r (Hs & Hz & Hsm & Hr & Hp) Et.
    pose proof (deflate_turn_progress R n E f s Hf Hs Hz Hsm Hr Hp) as X. rewrite Et in X. exact X. }
  specialize (H H1 H2 40%nat s0 H0).
  destruct (iter_pow 40 (deflate_turn f) s0) as [s'|rr]; [discriminate|].
  intros ->. exact H.
Qed.

(* the state a schedule of deflate() calls leads to, when no call of it ended the stream or failed *)
Fixpoint dreach (c : comp) (rest : list N) (sched : list (N * N * N)) (acc : list N) (consumed : N)
  : option (comp * list N * list N * N) :=
  match sched with
  | [] => Some (c, rest, acc, consumed)
  | (m, out_len, f) :: sched' =>
      match deflate c (firstn (N.to_nat m) rest) out_len f with
      | Ret (DRet code ncons out c') =>
          if (code =? D_MZ_OK)%Z || (code =? D_MZ_ERR_BUF)%Z
          then dreach c' (skipn (N.to_nat ncons) rest) sched' (acc ++ out) (consumed + ncons)
          else None
      | _ => None
      end
  end.

Definition RS (c : comp) (rest acc : list N) (n : N) : Prop :=
  DGI' acc c n /\ Dz c /\ (c_finished c = false -> rest = skipn (N.to_nat n) data) /\ (exists k, rest = skipn k data).

Lemma dreach_RS : forall sched c rest acc n c1 rest1 acc1 n1,
  Forall (fun it => legal_mz_flush (snd it)) sched ->
  RS c rest acc n -> dreach c rest sched acc n = Some (c1, rest1, acc1, n1) -> RS c1 rest1 acc1 n1.
Proof.
  induction sched as [|[[m out_len] f] sched IH]; intros c rest acc n c1 rest1 acc1 n1 Hleg HRS; cbn [dreach].
  { intros H; inversion H; subst. exact HRS. }
  destruct HRS as (HD & HDz & Hrest & Hsuf).
  inversion Hleg as [|it its Hf Hl']; subst. cbn [snd] in Hf.
  assert (Hn : c_finished c = false -> n <= total data).
  { intros Hnf. destruct HD as [[_ [(A & HBI & _ & Hn & _)|[Hfin _]]]|[_ (Hn & _)]]; [|congruence|exact Hn].
    destruct HBI as (_ & Hle & _). lia. }
  assert (Hpre : c_finished c = false ->
                 n <= N.min (n + m) (total data) /\ N.min (n + m) (total data) <= total data /\
                 firstn (N.to_nat m) rest = slice data n (N.min (n + m) (total data))).
  { intros Hnf. specialize (Hn Hnf). split; [lia|]. split; [lia|].
    rewrite (Hrest Hnf). unfold slice. rewrite firstn_min, skipn_length. f_equal. unfold total in *. lia. }
  pose proof (deflate_np data flags wb Hraw Hwb acc c n _ _ out_len f Hf HD HDz Hpre) as Hnp.
  destruct (deflate c (firstn (N.to_nat m) rest) out_len f) as [d| |] eqn:Ed; try discriminate.
  destruct d as [code ncons o c'|]; [|discriminate].
  pose proof (deflate_DGI data flags wb Hraw Hwb acc c n _ _ out_len f _ Hf HD Hpre Ed) as Hp.
  unfold dpost in Hp. unfold DRnp in Hnp.
  destruct ((code =? D_MZ_OK)%Z || (code =? D_MZ_ERR_BUF)%Z) eqn:Eok; [|discriminate].
  assert (Hne : (code =? D_MZ_STREAM_END)%Z = false).
  { apply orb_true_iff in Eok. destruct Eok as [X|X]; apply Z.eqb_eq in X; subst code; reflexivity. }
  rewrite Hne in Hp.
  apply IH; [exact Hl'|].
  split; [exact Hp|]. split; [exact Hnp|]. split.
  - intros Hnf'.
    assert (Hcf : c_finished c = false).
    { destruct (c_finished c) eqn:Hfin; [|reflexivity].
      rewrite (deflate_keeps_finished _ _ _ _ _ _ _ _ Hfin Ed) in Hnf'. discriminate. }
    rewrite (Hrest Hcf), skipn_skipn_add. f_equal. lia.
  - destruct Hsuf as [k ->]. exists (k + N.to_nat ncons)%nat. apply skipn_skipn_add.
Qed.

End D.

(* ------------------------------------------------------------------ the statements *)
Theorem level0_every_deflate_schedule_returns (data : list N) (flags wb : N) sched :
  hasf flags FLAG_RAW = true -> wb <= 15 ->
  Forall (fun it => legal_mz_flush (snd it)) sched ->
  N.of_nat (length data) + 259 < 2 ^ 40 ->
  exists result, ddrive (comp_new flags wb) data sched [] 0 = Ret result.
Proof.
  intros Hraw Hwb Hleg Hsmall.
  apply (ddrive_returns data flags wb Hraw Hwb Hsmall sched (comp_new flags wb) data [] 0 Hleg).
  - left. apply (GI2_init data flags wb).
  - unfold Dz, comp_new. cbn. lia.
  - intros _. reflexivity.
  - exists 0%nat. reflexivity.
Qed.

(* after ANY schedule of deflate() calls that has not ended the stream, a Finish call with a non-empty output buffer
   returns stream end, or Okay with the output buffer completely full - whatever it is offered *)
Theorem level0_finish_works_until_end_or_full (data : list N) (flags wb : N) sched c rest acc n m out_len code ncons out c' :
  hasf flags FLAG_RAW = true -> wb <= 15 ->
  Forall (fun it => legal_mz_flush (snd it)) sched ->
  N.of_nat (length data) + 259 < 2 ^ 40 ->
  dreach (comp_new flags wb) data sched [] 0 = Some (c, rest, acc, n) ->
  0 < out_len ->
  deflate c (firstn (N.to_nat m) rest) out_len 4 = Ret (DRet code ncons out c') ->
  code = D_MZ_STREAM_END \/ (code = D_MZ_OK /\ N.of_nat (length out) = out_len).
Proof.
  intros Hraw Hwb Hleg Hsmall Hreach Hol Hd.
  assert (H0 : RS data flags wb (comp_new flags wb) data [] 0).
  { split; [left; apply (GI2_init data flags wb)|]. split; [unfold Dz, comp_new; cbn; lia|].
    split; [intros _; reflexivity|exists 0%nat; reflexivity]. }
  destruct (dreach_RS data flags wb Hraw Hwb sched _ _ _ _ _ _ _ _ Hleg H0 Hreach) as (HD & HDz & Hrest & Hsuf).
  assert (Hn : c_finished c = false -> n <= total data).
  { intros Hnf. destruct HD as [[_ [(A & HBI & _ & Hn & _)|[Hfin _]]]|[_ (Hn & _)]]; [|congruence|exact Hn].
    destruct HBI as (_ & Hle & _). lia. }
  assert (Hpre : c_finished c = false ->
                 n <= N.min (n + m) (total data) /\ N.min (n + m) (total data) <= total data /\
                 firstn (N.to_nat m) rest = slice data n (N.min (n + m) (total data))).
  { intros Hnf. specialize (Hn Hnf). split; [lia|]. split; [lia|].
    rewrite (Hrest Hnf). unfold slice. rewrite firstn_min, skipn_length. f_equal. unfold total in *. lia. }
  assert (Hlen : N.of_nat (length (firstn (N.to_nat m) rest)) + 259 < 2 ^ 40).
  { destruct Hsuf as [k ->]. rewrite firstn_length, skipn_length. lia. }
  exact (deflate_finish_works data flags wb Hraw Hwb acc c n _ _ out_len code ncons out c' HD HDz Hpre Hlen Hol Hd).
Qed.

(* the running checksum of the compressor: after ANY schedule of deflate() calls that has not ended the stream, while
   the last block has not been written, the compressor's adler32 field is the Adler-32 of exactly the input consumed *)
Theorem level0_running_adler (data : list N) (flags wb : N) sched c rest acc n :
  hasf flags FLAG_RAW = true -> wb <= 15 ->
  Forall (fun it => legal_mz_flush (snd it)) sched ->
  dreach (comp_new flags wb) data sched [] 0 = Some (c, rest, acc, n) ->
  hasf flags FLAG_ZLIB = true -> c_finished c = false -> c_prev c = TOkay ->
  c_adler c = adler32 1 (firstn (N.to_nat n) data) /\ n <= N.of_nat (length data).
Proof.
  intros Hraw Hwb Hleg Hreach Hz Hnf Hprev.
  assert (H0 : RS data flags wb (comp_new flags wb) data [] 0).
  { split; [left; apply (GI2_init data flags wb)|]. split; [unfold Dz, comp_new; cbn; lia|].
    split; [intros _; reflexivity|exists 0%nat; reflexivity]. }
  destruct (dreach_RS data flags wb Hraw Hwb sched _ _ _ _ _ _ _ _ Hleg H0 Hreach) as (HD & _).
  destruct HD as [[_ [(A & HBI & _ & Hn & Had)|[Hfin _]]]|[Hp _]]; [|congruence|congruence].
  destruct HBI as ((_ & _ & _ & _ & _ & F6) & Hle & _).
  split; [rewrite F6; exact (Had Hz)|]. unfold total in Hle. lia.
Qed.

(* after ANY schedule of deflate() calls that has not ended the stream, a call with a non-empty output buffer and
   either input or a flush request that reports MZ_OK has consumed at least one byte or delivered at least one *)
Theorem level0_deflate_call_makes_progress (data : list N) (flags wb : N) sched c rest acc n m out_len f code ncons out c' :
  hasf flags FLAG_RAW = true -> wb <= 15 ->
  Forall (fun it => legal_mz_flush (snd it)) sched -> legal_mz_flush f ->
  N.of_nat (length data) + 259 < 2 ^ 40 ->
  dreach (comp_new flags wb) data sched [] 0 = Some (c, rest, acc, n) ->
  firstn (N.to_nat m) rest <> [] \/ f <> 0 ->
  deflate c (firstn (N.to_nat m) rest) out_len f = Ret (DRet code ncons out c') -> code = D_MZ_OK ->
  0 < ncons \/ out <> [].
Proof.
  intros Hraw Hwb Hleg Hf Hsmall Hreach Hreq Hd Hcode.
  assert (H0 : RS data flags wb (comp_new flags wb) data [] 0).
  { split; [left; apply (GI2_init data flags wb)|]. split; [unfold Dz, comp_new; cbn; lia|].
    split; [intros _; reflexivity|exists 0%nat; reflexivity]. }
  destruct (dreach_RS data flags wb Hraw Hwb sched _ _ _ _ _ _ _ _ Hleg H0 Hreach) as (HD & HDz & Hrest & Hsuf).
  assert (Hn : c_finished c = false -> n <= total data).
  { intros Hnf. destruct HD as [[_ [(A & HBI & _ & Hn & _)|[Hfin _]]]|[_ (Hn & _)]]; [|congruence|exact Hn].
    destruct HBI as (_ & Hle & _). lia. }
  assert (Hpre : c_finished c = false ->
                 n <= N.min (n + m) (total data) /\ N.min (n + m) (total data) <= total data /\
                 firstn (N.to_nat m) rest = slice data n (N.min (n + m) (total data))).
  { intros Hnf. specialize (Hn Hnf). split; [lia|]. split; [lia|].
    rewrite (Hrest Hnf). unfold slice. rewrite firstn_min, skipn_length. f_equal. unfold total in *. lia. }
  assert (Hlen : N.of_nat (length (firstn (N.to_nat m) rest)) + 259 < 2 ^ 40).
  { destruct Hsuf as [k ->]. rewrite firstn_length, skipn_length. lia. }
  exact (deflate_progress data flags wb Hraw Hwb acc c n _ _ out_len f code ncons out c' Hf HD HDz Hpre Hlen Hreq Hd Hcode).
Qed.
