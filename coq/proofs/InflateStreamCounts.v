(* inflate::stream::inflate (model/InflateStream.v): for every stream state reachable from a
   constructor, every input, output length and flush value, a call reports at most the offered
   input as consumed, delivers at most out_len bytes, and keeps the window bookkeeping
   (dict_ofs + dict_avail <= 32768) intact (C13, C17). *)
From Coq Require Import NArith ZArith List Bool Lia.
From MZ.lib Require Import Arr Bits Mach.
From MZ.model Require Import InflateCore InflateStream.
From MZ.proofs Require Import IterPow InflateFrame3.
Import ListNotations.
Local Open Scope N_scope.
Ltac Zify.zify_post_hook ::= Z.div_mod_to_equations.

Definition WF (s : istream) : Prop := alen (is_dict s) = DICT /\ is_ofs s + is_avail s <= DICT.

Lemma WF_new fmt : WF (is_new fmt).
Proof. unfold WF, is_new, DICT. cbn. lia. Qed.

Lemma WF_min_reset s : WF s -> WF (min_reset s).
Proof. unfold WF, min_reset, DICT. cbn. intros [H _]. split; [exact H|lia]. Qed.
Lemma WF_zero_reset s : WF s -> WF (zero_reset s).
Proof. unfold WF, zero_reset, DICT. cbn. intros _. lia. Qed.
Lemma WF_full_reset fmt s : WF s -> WF (full_reset fmt s).
Proof. unfold WF, full_reset, DICT. cbn. intros _. lia. Qed.

Lemma length_aget_list a i n : N.of_nat (length (aget_list a i n)) = n.
Proof. unfold aget_list. rewrite length_aget_list_nat. lia. Qed.

Lemma push_dict_out_spec s room bytes s' :
  WF s -> push_dict_out s room = (bytes, s') ->
  N.of_nat (length bytes) = N.min (is_avail s) room /\ WF s' /\
  is_avail s' = is_avail s - N.min (is_avail s) room.
Proof.
  intros [Hl Hs]. unfold push_dict_out. intros H; inversion H; subst bytes s'; clear H.
  rewrite length_aget_list. split; [reflexivity|]. split; [|reflexivity].
  unfold WF. cbn [mk_is is_dict is_ofs is_avail]. split; [exact Hl|].
  set (n := N.min (is_avail s) room). unfold DICT in *.
  change 32767 with (N.ones 15). rewrite N.land_ones. change (2 ^ 15) with 32768.
  destruct (N.lt_ge_cases (is_ofs s + n) 32768) as [H|H].
  - rewrite N.mod_small by exact H. unfold n. lia.
  - assert (is_ofs s + n = 32768) by (unfold n in *; lia).
    replace (is_ofs s + n) with 32768 by lia. rewrite N.mod_same by lia. unfold n in *. lia.
Qed.

Section Loop.
Variables (decomp_flags flush orig_in_len : N).
Variables (in_len out_len : N).

Definition LI (l : lstate) : Prop :=
  WF (l_s l) /\ l_tin l + N.of_nat (length (l_in l)) = in_len /\
  N.of_nat (length (l_rout l)) + l_room l = out_len.

Definition LQ (r : res (Z * lstate)) : Prop :=
  match r with Ret (_, l) => LI l | _ => True end.

(* one turn of the loop: whatever branch ends it, the successor record satisfies LI *)
Lemma loop_turn_LI l :
  LI l ->
  match loop_turn decomp_flags flush orig_in_len l with
  | inl l' => LI l'
  | inr r => LQ r
  end.
Proof.
  intros (HW & Hin & Hout). pose proof HW as [Hlen Hsum]. unfold loop_turn.
  destruct (decompress (is_dec (l_s l)) (l_in l) (is_dict (l_s l)) (is_ofs (l_s l)) USIZE_MAX decomp_flags)
    as [r| |] eqn:Ed; try exact I.
  apply decompress_frame in Ed; [|rewrite Hlen; unfold DICT, USIZE_MAX; lia].
  destruct Ed as (Fi & Fo & Fl & _ & _ & _).
  cbv zeta.
  set (s1 := mk_is (cr_dec r) (cr_buf r) (is_ofs (l_s l)) (cr_out r) (is_first (l_s l)) (is_flushed (l_s l))
                   (is_fmt (l_s l)) (cr_status r)).
  assert (HW1 : WF s1).
  { unfold WF, s1. cbn [mk_is is_dict is_ofs is_avail]. rewrite Fl, Hlen in *. split; [reflexivity|].
    unfold DICT in *. lia. }
  destruct (DICT <? is_ofs s1 + N.min (is_avail s1) (l_room l)); [exact I|].
  destruct (push_dict_out s1 (l_room l)) as [bytes s2] eqn:Ep.
  destruct (push_dict_out_spec _ _ _ _ HW1 Ep) as (Hb & HW2 & Hav).
  set (l' := {| l_s := s2; l_in := skipn (N.to_nat (cr_in r)) (l_in l);
                l_room := l_room l - N.of_nat (length bytes);
                l_tin := l_tin l + cr_in r; l_rout := rev_append bytes (l_rout l) |}).
  assert (HL' : LI l').
  { unfold LI, l'. cbn [l_s l_in l_room l_tin l_rout]. split; [exact HW2|]. split.
    - rewrite skipn_length. lia.
    - rewrite rev_append_rev, app_length, rev_length. lia. }
  repeat match goal with
         | |- context [if ?b then _ else _] => destruct b
         end; try exact HL'; exact I.
Qed.

Lemma inflate_loop_LI l r :
  LI l -> inflate_loop decomp_flags flush orig_in_len l = r -> LQ r.
Proof.
  intros HL. unfold inflate_loop.
  pose proof (iter_pow_inv (loop_turn decomp_flags flush orig_in_len) LI LQ) as H.
  assert (H1 : forall s s', LI s -> loop_turn decomp_flags flush orig_in_len s = inl s' -> LI s').
  { intros s s' Hs E. pose proof (loop_turn_LI s Hs) as X. rewrite E in X. exact X. }
  assert (H2 : forall s r, LI s -> loop_turn decomp_flags flush orig_in_len s = inr r -> LQ r).
  { intros s r0 Hs E. pose proof (loop_turn_LI s Hs) as X. rewrite E in X. exact X. }
  specialize (H H1 H2 40%nat l HL).
  destruct (iter_pow 40 (loop_turn decomp_flags flush orig_in_len) l) as [l'|rr]; intros <-; [exact I|exact H].
Qed.
End Loop.

Lemma WF_setters s b d st :
  WF s -> WF (set_first s b) /\ WF (set_flushed s b) /\ WF (set_dec s d) /\ WF (set_last s st).
Proof. unfold WF. cbn. tauto. Qed.

Theorem inflate_counts s input out_len flush r :
  WF s -> out_len <= USIZE_MAX ->
  inflate s input out_len flush = Ret r ->
  sr_in r <= N.of_nat (length input) /\ N.of_nat (length (sr_out r)) <= out_len /\ WF (sr_state r).
Proof.
  intros HW Hol. unfold inflate, err.
  destruct (flush =? FL_FULL).
  { intros H; inversion H; subst r; cbn [sr_in sr_out sr_state length]. split; [lia|split; [lia|exact HW]]. }
  cbv zeta.
  set (s0 := set_first s false).
  assert (HW0 : WF s0) by (apply (WF_setters s false (is_dec s) Done HW)).
  destruct (status_eqb (is_last s0) FailedCannotMakeProgress).
  { intros H; inversion H; subst r; cbn [sr_in sr_out sr_state length]. split; [lia|split; [lia|exact HW0]]. }
  destruct (is_neg (is_last s0)).
  { intros H; inversion H; subst r; cbn [sr_in sr_out sr_state length]. split; [lia|split; [lia|exact HW0]]. }
  destruct (is_flushed s0 && negb (flush =? FL_FINISH)).
  { intros H; inversion H; subst r; cbn [sr_in sr_out sr_state length]. split; [lia|split; [lia|exact HW0]]. }
  set (s1 := set_flushed s0 (is_flushed s0 || (flush =? FL_FINISH))).
  assert (HW1 : WF s1) by (apply (WF_setters s0 (is_flushed s0 || (flush =? FL_FINISH)) (is_dec s) Done HW0)).
  destruct ((flush =? FL_FINISH) && is_first s).
  - (* first call with Finish: straight into the caller's buffer *)
    match goal with |- bind ?X _ = _ -> _ => destruct X as [cr| |] eqn:Ed end; cbn [bind]; try discriminate.
    apply decompress_frame in Ed; [|cbn [amake alen]; exact Hol].
    destruct Ed as (Fi & Fo & _).
    cbn [amake alen] in Fo.
    match goal with |- (let '(code, s2) := ?e in _) = _ -> _ => destruct e as [code s2] eqn:Ee end.
    intros H; inversion H; subst r; clear H. cbn [sr_in sr_out sr_state].
    rewrite length_aget_list. split; [exact Fi|]. split; [lia|].
    assert (HWd : forall st, WF (set_last (set_dec s1 (cr_dec cr)) st)).
    { intros st. apply (WF_setters _ false (cr_dec cr) st). apply (WF_setters s1 false (cr_dec cr) st HW1). }
    repeat match type of Ee with
           | (if ?b then _ else _) = _ => destruct b
           end; inversion Ee; subst; try apply HWd;
    apply (WF_setters _ false (cr_dec cr) Failed); apply HWd.
  - destruct (negb (is_avail s1 =? 0)).
    + (* pending window bytes are handed over first *)
      unfold guard. destruct (is_ofs s1 + N.min (is_avail s1) out_len <=? DICT); cbn [bind]; [|discriminate].
      destruct (push_dict_out s1 out_len) as [bytes s2] eqn:Ep.
      destruct (push_dict_out_spec _ _ _ _ HW1 Ep) as (Hb & HW2 & _).
      intros H; inversion H; subst r; clear H. cbn [sr_in sr_out sr_state]. split; [lia|split; [lia|exact HW2]].
    + match goal with |- bind ?X _ = _ -> _ => destruct X as [[code l]| |] eqn:El end; cbn [bind]; try discriminate.
      eapply (inflate_loop_LI _ _ _ (N.of_nat (length input)) out_len) in El.
      2:{ unfold LI. cbn [l_s l_in l_room l_tin l_rout length]. split; [exact HW1|]. lia. }
      destruct El as (HWl & Hin & Hout).
      intros H; inversion H; subst r; clear H. cbn [sr_in sr_out sr_state].
      rewrite rev_append_rev, app_nil_r, rev_length. split; [lia|split; [lia|exact HWl]].
Qed.
