(* C13: "stream-end ... is stable afterwards", on streams of stored blocks: once inflate() has reported the end of the
   stream (the object's last status is Done and nothing is pending in its window), every further call without Finish,
   given input and output space, reports MZ_STREAM_END again, consumes nothing and writes nothing.  Combines
   InflateStoredStream.inflate_call (what a call can return from such a state) with the general progress theorem of
   InflateStreamProgress.v (MZ_OK would have to consume or deliver something, and there is nothing left to deliver). *)
From Coq Require Import NArith ZArith List Bool Lia Arith.
From MZ.lib Require Import Arr Bits Mach.
From MZ.spec Require Import Adler DeflateSpec Zlib.
From MZ.model Require Import InflateCore InflateStream.
From MZ.proofs Require Import IterPow StoredSpec InflateStoredZ InflateStoredChunks InflateStoredGen InflateStoredStream
                              InflateStreamCounts InflateStreamProgress.
Import ListNotations.
Local Open Scope N_scope.

(* whatever the decoder's state, what is still to come contains at least the bytes that follow the stream *)
Lemma ShR_rem_ge zl cmf flg A B extra K s n b ct r rem op :
  ShR zl cmf flg A B extra K s n b ct r rem op -> (length extra <= length rem)%nat.
Proof.
  unfold ShR. destruct s; try contradiction; intros H;
    repeat match goal with H : _ /\ _ |- _ => destruct H end;
    repeat match goal with H : exists _, _ |- _ => destruct H end;
    repeat match goal with H : _ /\ _ |- _ => destruct H end;
    subst rem; unfold InflateStoredZ.encT, InflateStoredZ.tail; cbn [length]; rewrite ?app_length; cbn [length]; lia.
Qed.

Theorem stream_end_is_stable fmt cmf flg A B extra s input fut Dd out_len flush :
  cmf < 256 -> flg < 256 -> valid_header (Z.of_N cmf) (Z.of_N flg) = true -> A < 2 ^ 32 ->
  shapeB B -> (length (InflateStoredChunks.P B) < 2 ^ 40)%nat ->
  flush <> FL_FINISH -> flush <> FL_FULL ->
  WI fmt cmf flg A B extra s (input ++ fut) Dd ->
  is_last s = Done -> is_avail s = 0 ->
  input <> [] -> 0 < out_len -> N.of_nat (length input) < 2 ^ 57 ->
  exists r, inflate s input out_len flush = Ret r /\
            sr_code r = MZ_STREAM_END /\ sr_in r = 0 /\ sr_out r = [] /\
            WI fmt cmf flg A B extra (sr_state r) (input ++ fut) Dd.
Proof.
  intros Hcmf Hflg Hvalid HA HB HP Hf1 Hf2 HW Hlast Hav Hin Hol Hshort.
  destruct (inflate_call fmt cmf flg A Hcmf Hflg Hvalid HA B HB extra HP s input fut Dd out_len flush Hf1 Hf2 HW Hshort)
    as (r & Er & Hri & Hro & HW' & Hcode).
  exists r. split; [exact Er|].
  pose proof HW as (HD & Hal & Hoa & Hofs & _ & _ & Hl).
  (* the decoder has finished: everything has been handed out, the input left is what follows the stream *)
  assert (Hfin : final_status (sfl fmt) (zl_of fmt) A B = Done /\ d_state (is_dec s) = DoneForever).
  { destruct Hl as [X|[X|[X Y]]]; [rewrite X in Hlast; discriminate|rewrite X in Hlast; discriminate|].
    split; [rewrite <- X; exact Hlast|exact Y]. }
  destruct Hfin as [Hfin Hdf].
  assert (Hpend : pend s = []) by (unfold pend; rewrite Hav; reflexivity).
  assert (Hall : Dd = InflateStoredChunks.P B /\ input ++ fut = extra).
  { destruct HD as ((_ & _ & HS) & _). unfold ShR in HS. rewrite Hdf in HS. destruct HS as (_ & Hrem & Hop & _).
    rewrite Hpend, app_nil_r in Hop. split; [exact Hop|exact Hrem]. }
  destruct Hall as [HDd Hrem].
  (* the same for the state after the call *)
  assert (HWFo : WFo s) by (split; [split; [exact Hal|exact Hoa]|exact Hofs]).
  assert (Hout : sr_out r = []).
  { pose proof (WI_prefix fmt cmf flg A B extra _ _ _ HW') as (X & HX). rewrite HDd in HX.
    rewrite <- app_assoc in HX. rewrite <- (app_nil_r (InflateStoredChunks.P B)) in HX at 2.
    apply app_inv_head in HX. apply app_eq_nil in HX. exact (proj1 HX). }
  assert (Hcons : sr_in r = 0).
  { pose proof HW' as (((_ & _ & HS') & _) & _).
    apply ShR_rem_ge in HS'.
    assert (X : length (input ++ fut) = length extra) by (rewrite Hrem; reflexivity).
    rewrite app_length in X, HS'. rewrite skipn_length in HS'. lia. }
  split; [|split; [exact Hcons|split; [exact Hout|]]].
  - destruct Hcode as [X|[[X _]|[[X Y]|[X Y]]]]; [|exact X|contradiction|rewrite Y in Hfin; discriminate Hfin].
    exfalso. destruct (inflate_progress s input out_len flush r HWFo Hin Hol Er X) as [Z|Z]; [lia|exact (Z Hout)].
  - rewrite Hcons, Hout, app_nil_r in HW'. exact HW'.
Qed.

(* the caller's loop of InflateStoredStream.sfeed, returning also the input the last call left unconsumed *)
Fixpoint sfeedp (s : istream) (pending : list N) (calls : list (list N * N * N)) (acc : list N) (codes : list Z)
  : res (list Z * list N * istream * list N) :=
  match calls with
  | [] => Ret (codes, acc, s, pending)
  | (piece, out_len, flush) :: more =>
      let input := pending ++ piece in
      match inflate s input out_len flush with
      | Ret r => sfeedp (sr_state r) (skipn (N.to_nat (sr_in r)) input) more (acc ++ sr_out r) (codes ++ [sr_code r])
      | Panic n => Panic n
      | OutOfFuel => OutOfFuel
      end
  end.

Lemma sfeedp_WI fmt cmf flg A B extra :
  cmf < 256 -> flg < 256 -> valid_header (Z.of_N cmf) (Z.of_N flg) = true -> A < 2 ^ 32 ->
  shapeB B -> (length (InflateStoredChunks.P B) < 2 ^ 40)%nat ->
  forall calls s pending later acc codes codes' acc' s' left,
  Forall (fun it : list N * N * N => snd it <> FL_FINISH /\ snd it <> FL_FULL) calls ->
  WI fmt cmf flg A B extra s (pending ++ concat (map (fun it => fst (fst it)) calls) ++ later) acc ->
  N.of_nat (length (pending ++ concat (map (fun it => fst (fst it)) calls))) < 2 ^ 57 ->
  sfeedp s pending calls acc codes = Ret (codes', acc', s', left) ->
  WI fmt cmf flg A B extra s' (left ++ later) acc' /\
  N.of_nat (length left) <= N.of_nat (length (pending ++ concat (map (fun it => fst (fst it)) calls))).
Proof.
  intros Hcmf Hflg Hvalid HA HB HP.
  induction calls as [|[[piece out_len] flush] more IH]; intros s pending later acc codes codes' acc' s' left Hfl HW Hshort.
  - cbn [sfeedp]. intros H; inversion H; subst. cbn [map concat app] in HW, Hshort. rewrite app_nil_r in Hshort.
    split; [exact HW|]. cbn [map concat]. rewrite app_nil_r. lia.
  - cbn [sfeedp]. cbn [map concat fst] in HW, Hshort.
    inversion Hfl as [|x xs [Hf1 Hf2] Hfl' Ex]; subst x xs. cbn [snd] in Hf1, Hf2.
    assert (Hrem : pending ++ (piece ++ concat (map (fun it => fst (fst it)) more)) ++ later
                   = (pending ++ piece) ++ (concat (map (fun it => fst (fst it)) more) ++ later))
      by (rewrite <- !app_assoc; reflexivity).
    rewrite Hrem in HW.
    assert (Hsh1 : N.of_nat (length (pending ++ piece)) < 2 ^ 57) by (rewrite !app_length in *; lia).
    destruct (inflate_call fmt cmf flg A Hcmf Hflg Hvalid HA B HB extra HP s (pending ++ piece) _ acc out_len flush Hf1 Hf2 HW Hsh1)
      as (r & Er & Hin & Hout & HW' & Hcode).
    rewrite Er. intros Hrec.
    assert (Hsh2 : N.of_nat (length (skipn (N.to_nat (sr_in r)) (pending ++ piece) ++ concat (map (fun it => fst (fst it)) more))) < 2 ^ 57).
    { rewrite app_length, skipn_length. rewrite !app_length in Hshort. rewrite app_length. lia. }
    destruct (IH (sr_state r) (skipn (N.to_nat (sr_in r)) (pending ++ piece)) later (acc ++ sr_out r) (codes ++ [sr_code r])
                 codes' acc' s' left Hfl' HW' Hsh2 Hrec) as [X1 X2].
    split; [exact X1|]. cbn [map concat fst]. rewrite app_length, skipn_length in X2. rewrite !app_length in *. lia.
Qed.

(* after ANY sequence of calls on a stream of stored blocks that has brought the object to the end of the stream,
   a further call with input and output space reports the end again and does nothing else *)
Theorem stream_end_stable_after_any_schedule fmt cmf flg A chunks last extra calls later codes acc s' left piece out_len flush :
  cmf < 256 -> flg < 256 -> valid_header (Z.of_N cmf) (Z.of_N flg) = true -> A < 2 ^ 32 ->
  chunks_ok chunks -> bytes_ok last -> N.of_nat (length last) <= 65535 ->
  let data := concat chunks ++ last in
  let zl := zl_of fmt in
  let stream := (if zl then [cmf; flg] else []) ++ stored_stream chunks last ++ (if zl then be32 A else []) in
  let offered := concat (map (fun it : list N * N * N => fst (fst it)) calls) in
  Forall (fun it : list N * N * N => snd it <> FL_FINISH /\ snd it <> FL_FULL) calls ->
  offered ++ piece ++ later = stream ++ extra ->
  N.of_nat (length (offered ++ piece)) < 2 ^ 57 -> N.of_nat (length data) < 2 ^ 40 ->
  sfeedp (is_new fmt) [] calls [] [] = Ret (codes, acc, s', left) ->
  is_last s' = Done -> is_avail s' = 0 ->
  left ++ piece <> [] -> 0 < out_len -> flush <> FL_FINISH -> flush <> FL_FULL ->
  acc = data /\
  exists r, inflate s' (left ++ piece) out_len flush = Ret r /\
            sr_code r = MZ_STREAM_END /\ sr_in r = 0 /\ sr_out r = [].
Proof.
  intros Hcmf Hflg Hvalid HA Hc Hl1 Hl2 data zl stream offered Hfl Hcat Hshort Hlen Hrun Hlast Hav Hne Hol Hf1 Hf2.
  set (B := map (pair false) chunks ++ [(true, last)]).
  pose proof (shapeB_of chunks last Hc Hl1 Hl2) as HB. fold B in HB.
  assert (Hinput : stream ++ extra = InflateStoredZ.hz zl cmf flg ++ InflateStoredZ.encT zl A extra B).
  { unfold stream, InflateStoredZ.hz, InflateStoredZ.encT, tail, tailz, B. rewrite enc_of.
    destruct zl; cbn [app]; rewrite <- ?app_assoc; reflexivity. }
  assert (Hdata : data = InflateStoredChunks.P B) by (unfold data, InflateStoredChunks.P, B; rewrite pay_of; reflexivity).
  assert (HPl : (length (InflateStoredChunks.P B) < 2 ^ 40)%nat) by (rewrite <- Hdata; apply pow40_nat; exact Hlen).
  assert (HW : WI fmt cmf flg A B extra (is_new fmt) ([] ++ offered ++ (piece ++ later)) []).
  { unfold WI, pend, is_new. cbn [is_dec is_dict is_ofs is_avail is_flushed is_fmt is_last app].
    change (aget_list (amake DICT 0) 0 0) with (@nil N).
    split; [rewrite Hcat, Hinput; apply InflateStoredGen.DI_init; exact HB|].
    split; [reflexivity|]. split; [unfold DICT; lia|]. split; [unfold DICT; lia|]. split; [reflexivity|]. split; [reflexivity|].
    left. reflexivity. }
  assert (Hsh0 : N.of_nat (length ([] ++ offered)) < 2 ^ 57) by (cbn [app]; rewrite app_length in Hshort; lia).
  destruct (sfeedp_WI fmt cmf flg A B extra Hcmf Hflg Hvalid HA HB HPl calls (is_new fmt) [] (piece ++ later) [] []
              codes acc s' left Hfl HW Hsh0 Hrun) as [HW' Hleft].
  rewrite app_assoc in HW'.
  assert (Hsh1 : N.of_nat (length (left ++ piece)) < 2 ^ 57).
  { cbn [app] in Hleft. fold offered in Hleft. rewrite app_length in *. lia. }
  destruct (stream_end_is_stable fmt cmf flg A B extra s' (left ++ piece) later acc out_len flush
              Hcmf Hflg Hvalid HA HB HPl Hf1 Hf2 HW' Hlast Hav Hne Hol Hsh1) as (r & Er & H1 & H2 & H3 & _).
  split.
  - pose proof HW' as (((_ & _ & HS) & _) & _ & _ & _ & _ & _ & Hl).
    destruct Hl as [X|[X|[_ Y]]]; [rewrite X in Hlast; discriminate|rewrite X in Hlast; discriminate|].
    unfold ShR in HS. rewrite Y in HS. destruct HS as (_ & _ & Hop & _).
    unfold pend in Hop. rewrite Hav in Hop. change (aget_list _ _ 0) with (@nil N) in Hop. rewrite app_nil_r in Hop.
    rewrite Hdata. exact Hop.
  - exists r. split; [exact Er|]. split; [exact H1|]. split; [exact H2|exact H3].
Qed.
