(* Suspend/resume of the bit reader (C07; the base case of the simulation argument): if
   read_bits starves on a prefix i1 of the input, re-entering it from the state it saved, with
   the rest i2 of the input, gives exactly the result of reading i1 ++ i2 in one go - whatever
   the flags of the two calls and whatever the continuation does with the bits. *)
From Coq Require Import NArith ZArith List Bool Lia.
From MZ.lib Require Import Arr Bits Mach.
From MZ.model Require Import InflateCore.
Import ListNotations.
Local Open Scope N_scope.

(* the configuration with a different input slice *)
Definition with_input (c : cfg) (i : list N) : cfg := set_in c i (N.of_nat (length i)).

Section Resume.
Variables flags1 flags2 : N.

Theorem read_bits_resume : forall i1 fuel1 c amount k i2 c1' f,
  (forall c' b a c'', k c' b = Ret (a, c'') -> a <> AEnd (end_of_input flags1)) ->
  read_bits_f flags1 fuel1 (with_input c i1) amount k = Ret (AEnd (end_of_input flags1), c1') ->
  read_bits_f flags2 (length i1 + f) (with_input c (i1 ++ i2)) amount k
  = read_bits_f flags2 f (with_input c1' i2) amount k.
Proof.
  induction i1 as [|x i1 IH]; intros fuel1 c amount k i2 c1' f Hk H.
  - destruct fuel1 as [|fuel1]; cbn [read_bits_f] in H;
      change (nb (with_input c [])) with (nb c) in H;
      destruct (nb c <? amount) eqn:En; try discriminate.
    + unfold guard in H. destruct (amount <? 64); cbn [bind] in H; [|discriminate].
      exfalso. eapply Hk; [exact H|reflexivity].
    + cbn [with_input set_in mk read_byte inp] in H. inversion H; subst c1'. reflexivity.
    + unfold guard in H. destruct (amount <? 64); cbn [bind] in H; [|discriminate].
      exfalso. eapply Hk; [exact H|reflexivity].
  - destruct fuel1 as [|fuel1]; cbn [read_bits_f] in H;
      change (nb (with_input c (x :: i1))) with (nb c) in H;
      destruct (nb c <? amount) eqn:En; try discriminate.
    + unfold guard in H. destruct (amount <? 64); cbn [bind] in H; [|discriminate].
      exfalso. eapply Hk; [exact H|reflexivity].
    + cbn [with_input set_in mk read_byte inp ileft length] in H.
      cbn [app length plus read_bits_f].
      change (nb (with_input c (x :: i1 ++ i2))) with (nb c). rewrite En.
      cbn [with_input set_in mk read_byte inp ileft length].
      unfold push_bits, guard in *. unfold with_input in H at 1 2 3 4 5. unfold with_input at 1 2 3 4 5.
      cbn [set_in mk nb bb] in *.
      destruct (nb c <? 64) eqn:E64; cbn [bind] in *; [|discriminate].
      set (cn := set_bits c (N.lor (bb c) (N.shiftl x (nb c)) mod U64) (nb c + 8)).
      assert (E1 : forall l, set_bits (set_in (set_in c (x :: l) (N.of_nat (length (x :: l)))) l (N.of_nat (S (length l)) - 1))
                                       (N.lor (bb c) (N.shiftl x (nb c)) mod U64) (nb c + 8) = with_input cn l).
      { intros l. unfold with_input, cn, set_bits, set_in, mk; cbn [rr st bb nb dist ctr nex inp ileft out pos].
        replace (N.of_nat (S (length l)) - 1) with (N.of_nat (length l)) by (rewrite Nat2N.inj_succ; lia). reflexivity. }
      rewrite E1 in H. rewrite E1.
      eapply IH; eassumption.
    + unfold guard in H. destruct (amount <? 64); cbn [bind] in H; [|discriminate].
      exfalso. eapply Hk; [exact H|reflexivity].
Qed.
End Resume.
