(* The same for the zlib-style streaming wrapper deflate() (model: DeflateCore.deflate, the function
   behind mz_deflate): every sequence of deflate() calls at level 0 with flush None / Sync / Full /
   Finish and any buffer sizes that reaches stream end has produced a stream which the specification
   decodes to exactly the input consumed (C14, C17 at level 0). *)
From Coq Require Import NArith ZArith List Bool Lia Arith.
From MZ.lib Require Import Arr Bits Mach.
From MZ.spec Require Import Adler DeflateSpec.
From MZ.model Require Import DeflateCore.
From MZ.proofs Require Import IterPow DeflateCounts StoredSpec StoredModel StoredRoundtrip StoredStream StoredSchedules.
Import ListNotations.
Local Open Scope N_scope.

Definition legal_mz_flush (f : N) : Prop := f = 0 \/ f = 2 \/ f = 3 \/ f = 4.

Lemma legal_mz_td f : legal_mz_flush f -> legal_flush (tdflush_of_mz f) /\ tdflush_of_mz f = f.
Proof. intros [-> | [-> | [-> | ->]]]; (split; [|reflexivity]); unfold legal_flush; cbn; tauto. Qed.

Lemma compress_prev_status c input out_len f r :
  compress c input out_len f = Ret (CRet r) -> c_prev (r_comp r) = r_status r.
Proof.
  unfold compress, compress_inner.
  destruct (negb _ || negb _); [intros H; inversion H; reflexivity|].
  destruct (negb _ || c_finished _).
  { destruct (flush_output_buffer _ _) as [[st c1] cb1]. intros H; inversion H; reflexivity. }
  destruct (negb (hasf _ FLAG_RAW)); [discriminate|].
  destruct (compress_stored _ _ input) as [sr| |]; cbn [bind]; try discriminate.
  destruct sr as [ok c1 cb1 src|]; [|discriminate].
  destruct ok; [|intros H; inversion H; reflexivity].
  match goal with |- bind ?X _ = _ -> _ => destruct X as [rr| |] end; cbn [bind]; try discriminate.
  destruct rr as [[[c2 cb2]|[c2 cb2]]|]; try discriminate.
  - intros H; inversion H; reflexivity.
  - destruct (flush_output_buffer c2 cb2) as [[st c3] cb3]. intros H; inversion H; reflexivity.
Qed.

Lemma compress_keeps_finished c input out_len f r :
  c_finished c = true -> compress c input out_len f = Ret (CRet r) -> c_finished (r_comp r) = true.
Proof.
  intros Hfin. unfold compress, compress_inner.
  destruct (negb _ || negb _); [intros H; inversion H; subst r; exact Hfin|].
  change (c_finished (set_flush c f)) with (c_finished c). rewrite Hfin, orb_true_r.
  destruct (flush_output_buffer (set_flush c f) (CBuf out_len [] 0)) as [[st c1] cb1] eqn:Ef.
  apply fob_vout in Ef. destruct Ef as (_ & _ & Ec1 & _).
  intros H; inversion H; subst r; clear H. cbn [r_comp]. rewrite Ec1. exact Hfin.
Qed.

Lemma deflate_keeps_finished c input out_len f code ncons out c' :
  c_finished c = true -> deflate c input out_len f = Ret (DRet code ncons out c') -> c_finished c' = true.
Proof.
  intros Hfin. unfold deflate. destruct (out_len =? 0); [intros H; inversion H; subst; exact Hfin|].
  destruct (match c_prev c with TDone => true | _ => false end).
  { destruct (f =? 4); intros H; inversion H; subst; exact Hfin. }
  set (I := fun s : dfstate => c_finished (ds_c s) = true).
  set (Q := fun r : res dres => match r with Ret (DRet _ _ _ c0) => c_finished c0 = true | _ => True end).
  pose proof (iter_pow_inv (deflate_turn f) I Q) as H.
  assert (Hstep : forall s, I s -> match deflate_turn f s with inl s' => I s' | inr r => Q r end).
  { intros s Hs. unfold deflate_turn.
    destruct (compress (ds_c s) (ds_in s) (ds_room s) (tdflush_of_mz f)) as [cr| |] eqn:Ec; try exact Logic.I.
    destruct cr as [r|]; [|exact Logic.I].
    pose proof (compress_keeps_finished _ _ _ _ _ Hs Ec) as Hk. cbv zeta.
    destruct (r_status r); try exact Hk.
    destruct (_ =? 0); [exact Hk|].
    destruct (_ && _); [destruct (_ || _); exact Hk|exact Hk]. }
  assert (H1 : forall s s', I s -> deflate_turn f s = inl s' -> I s').
  { intros s s' Hs Et. pose proof (Hstep s Hs) as X. rewrite Et in X. exact X. }
  assert (H2 : forall s r, I s -> deflate_turn f s = inr r -> Q r).
  { intros s r Hs Et. pose proof (Hstep s Hs) as X. rewrite Et in X. exact X. }
  specialize (H H1 H2 40%nat {| ds_c := c; ds_in := input; ds_room := out_len; ds_tin := 0; ds_rout := [] |} Hfin).
  destruct (iter_pow 40 (deflate_turn f) _) as [s'|rr]; [discriminate|].
  intros E0. subst rr. exact H.
Qed.

Section Deflate.
Variables (data : list N) (flags wb : N).
Hypothesis Hraw : hasf flags FLAG_RAW = true.
Hypothesis Hwb : wb <= 15.

(* between deflate() calls: as between compress() calls, or the stream has ended *)
Definition DGI (R : list N) (c : comp) (n : N) : Prop :=
  GI2 data flags wb R c n \/ (c_prev c = TDone /\ finished_with data flags wb R n).

Definition dpost (R : list N) (n : N) (d : dres) : Prop :=
  match d with
  | DRet code consumed out c' =>
      if (code =? D_MZ_STREAM_END)%Z then c_prev c' = TDone /\ finished_with data flags wb (R ++ out) (n + consumed)
      else if (code =? D_MZ_OK)%Z || (code =? D_MZ_ERR_BUF)%Z then DGI (R ++ out) c' (n + consumed)
      else True
  | DUnmodelled => True
  end.

Section Turn.
Variables (R : list N) (n E f : N).
Hypothesis Hf : legal_mz_flush f.

Definition DLI (s : dfstate) : Prop :=
  GI2 data flags wb (R ++ rev (ds_rout s)) (ds_c s) (n + ds_tin s) /\
  (c_finished (ds_c s) = false ->
   n + ds_tin s <= E /\ E <= total data /\ ds_in s = slice data (n + ds_tin s) E).

Definition DLQ (r : res dres) : Prop := match r with Ret d => dpost R n d | _ => True end.

Lemma deflate_turn_DLI s :
  DLI s -> match deflate_turn f s with inl s' => DLI s' | inr r => DLQ r end.
Proof.
  intros [HG Hin]. unfold deflate_turn.
  destruct (legal_mz_td f Hf) as [Hlf Htd]. rewrite Htd in *.
  destruct (compress (ds_c s) (ds_in s) (ds_room s) f) as [cr| |] eqn:Ec; try exact I.
  destruct cr as [r|]; [|exact I].
  pose proof (compress_GI2 data flags wb Hraw Hwb _ _ _ _ E _ f r Hlf HG Hin Ec) as Hp.
  pose proof (compress_counts _ _ _ _ _ Ec) as [Hrin _].
  unfold call_post2 in Hp. cbv zeta.
  assert (Hacc : R ++ rev (rev_append (r_out r) (ds_rout s)) = (R ++ rev (ds_rout s)) ++ r_out r).
  { rewrite rev_append_rev, rev_app_distr, rev_involutive, app_assoc. reflexivity. }
  assert (Hacc2 : forall l : list N, rev_append l [] = rev l) by (intros; rewrite rev_append_rev, app_nil_r; reflexivity).
  destruct (r_status r) eqn:Est.
  - exact I.
  - exact I.
  - (* Okay *)
    assert (HL' : DLI {| ds_c := r_comp r; ds_in := skipn (N.to_nat (r_in r)) (ds_in s);
                         ds_room := ds_room s - N.of_nat (length (r_out r)); ds_tin := ds_tin s + r_in r;
                         ds_rout := rev_append (r_out r) (ds_rout s) |}).
    { unfold DLI. cbn [ds_c ds_in ds_tin ds_rout]. rewrite Hacc, N.add_assoc. split; [exact Hp|].
      intros Hnf.
      assert (Hcf : c_finished (ds_c s) = false).
      { destruct HG as [_ [(A0 & (Hfx & _) & _)|[Hfin Hfw]]]; [destruct Hfx as (_ & _ & _ & _ & X & _); exact X|].
        exfalso. clear - Hfin Hnf Ec. unfold compress, compress_inner in Ec.
        destruct (negb _ || negb _); [inversion Ec; subst r; cbn in Hnf; congruence|].
        change (c_finished (set_flush (ds_c s) f)) with (c_finished (ds_c s)) in Ec. rewrite Hfin, orb_true_r in Ec.
        destruct (flush_output_buffer (set_flush (ds_c s) f) (CBuf (ds_room s) [] 0)) as [[st c1] cb1] eqn:Ef.
        apply fob_vout in Ef. destruct Ef as (_ & _ & Ec1 & _).
        inversion Ec; subst r; clear Ec. cbn [r_comp] in Hnf. rewrite Ec1 in Hnf. cbn in Hnf. congruence. }
      destruct (Hin Hcf) as (H1 & H2 & H3).
      assert (Hle : r_in r <= E - (n + ds_tin s)).
      { rewrite H3 in Hrin. rewrite (slice_length data wb Hwb _ _ H1 H2) in Hrin. exact Hrin. }
      split; [lia|]. split; [exact H2|]. rewrite H3. apply (slice_skipn data wb Hwb). exact Hle. }
    assert (HOK : forall code, ((code =? D_MZ_OK)%Z || (code =? D_MZ_ERR_BUF)%Z) = true -> (code =? D_MZ_STREAM_END)%Z = false ->
              DLQ (Ret (DRet code (ds_tin s + r_in r) (rev_append (rev_append (r_out r) (ds_rout s)) []) (r_comp r)))).
    { intros code H1 H2. unfold DLQ, dpost. rewrite H2, H1, Hacc2, Hacc, N.add_assoc. left. exact Hp. }
    destruct (ds_room s - N.of_nat (length (r_out r)) =? 0); [apply HOK; reflexivity|].
    destruct (match skipn (N.to_nat (r_in r)) (ds_in s) with [] => true | _ => false end && negb (f =? 4)).
    + destruct (negb (f =? 0) || _); apply HOK; reflexivity.
    + exact HL'.
  - (* Done *)
    unfold DLQ, dpost. change (D_MZ_STREAM_END =? D_MZ_STREAM_END)%Z with true. cbv iota.
    rewrite Hacc2, Hacc, N.add_assoc. split; [|exact Hp].
    rewrite (compress_prev_status _ _ _ _ _ Ec). exact Est.
Qed.

End Turn.

Lemma deflate_DGI R c n E input out_len f d :
  legal_mz_flush f -> DGI R c n ->
  (c_finished c = false -> n <= E /\ E <= total data /\ input = slice data n E) ->
  deflate c input out_len f = Ret d -> dpost R n d.
Proof.
  intros Hf HD Hin. unfold deflate.
  destruct (out_len =? 0).
  { intros H; inversion H; subst d. unfold dpost. cbn. rewrite app_nil_r, N.add_0_r. exact HD. }
  destruct (c_prev c) eqn:Ep.
  4:{ (* the stream has ended *)
      destruct HD as [[Hp _]|[_ Hfw]]; [congruence|].
      destruct (f =? 4); intros H; inversion H; subst d; unfold dpost; cbn; rewrite app_nil_r, N.add_0_r.
      - split; [exact Ep|exact Hfw].
      - right. split; [exact Ep|exact Hfw]. }
  all: destruct HD as [HG|[Hp _]]; [|congruence].
  all: try (destruct HG as [Hp _]; congruence).
  set (s0 := {| ds_c := c; ds_in := input; ds_room := out_len; ds_tin := 0; ds_rout := [] |}).
  assert (H0 : DLI R n E s0).
  { unfold DLI, s0. cbn [ds_c ds_in ds_tin ds_rout rev]. rewrite app_nil_r, N.add_0_r. split; [exact HG|exact Hin]. }
  pose proof (iter_pow_inv (deflate_turn f) (DLI R n E) (DLQ R n)) as H.
  assert (H1 : forall s s', DLI R n E s -> deflate_turn f s = inl s' -> DLI R n E s').
  { intros s s' Hs Et. pose proof (deflate_turn_DLI R n E f Hf s Hs) as X. rewrite Et in X. exact X. }
  assert (H2 : forall s r, DLI R n E s -> deflate_turn f s = inr r -> DLQ R n r).
  { intros s r Hs Et. pose proof (deflate_turn_DLI R n E f Hf s Hs) as X. rewrite Et in X. exact X. }
  specialize (H H1 H2 40%nat s0 H0).
  destruct (iter_pow 40 (deflate_turn f) s0) as [s'|rr]; [discriminate|].
  intros E0. subst rr. exact H.
Qed.

(* a caller of deflate() *)
Fixpoint ddrive (c : comp) (rest : list N) (sched : list (N * N * N)) (acc : list N) (consumed : N)
  : res (option (list N * N)) :=
  match sched with
  | [] => Ret None
  | (m, out_len, f) :: sched' =>
      d <- deflate c (firstn (N.to_nat m) rest) out_len f ;;
      match d with
      | DUnmodelled => Ret None
      | DRet code ncons out c' =>
          if (code =? D_MZ_STREAM_END)%Z then Ret (Some (acc ++ out, consumed + ncons))
          else if (code =? D_MZ_OK)%Z || (code =? D_MZ_ERR_BUF)%Z
               then ddrive c' (skipn (N.to_nat ncons) rest) sched' (acc ++ out) (consumed + ncons)
               else Ret None
      end
  end.

Definition unfinished_rest (c : comp) (rest : list N) (n : N) : Prop :=
  c_finished c = false -> c_prev c = TOkay -> rest = skipn (N.to_nat n) data.

Lemma deflate_consumed c input out_len f code ncons out c' :
  deflate c input out_len f = Ret (DRet code ncons out c') -> ncons <= N.of_nat (length input).
Proof.
  unfold deflate. destruct (out_len =? 0); [intros H; inversion H; lia|].
  destruct (match c_prev c with TDone => true | _ => false end).
  { destruct (f =? 4); intros H; inversion H; lia. }
  set (I := fun s : dfstate => ds_tin s + N.of_nat (length (ds_in s)) = N.of_nat (length input)).
  set (Q := fun r : res dres => match r with Ret (DRet _ nc0 _ _) => nc0 <= N.of_nat (length input) | _ => True end).
  pose proof (iter_pow_inv (deflate_turn f) I Q) as H.
  assert (Hstep : forall s, I s -> match deflate_turn f s with inl s' => I s' | inr r => Q r end).
  { intros s Hs. unfold deflate_turn.
    destruct (compress (ds_c s) (ds_in s) (ds_room s) (tdflush_of_mz f)) as [cr| |] eqn:Ec; try exact Logic.I.
    destruct cr as [r|]; [|exact Logic.I].
    pose proof (compress_counts _ _ _ _ _ Ec) as [Hrin _]. unfold I in Hs. cbv zeta.
    assert (Hq : forall code0 o c0, Q (Ret (DRet code0 (ds_tin s + r_in r) o c0))) by (intros; unfold Q; lia).
    destruct (r_status r); try apply Hq.
    destruct (_ =? 0); [apply Hq|].
    destruct (_ && _); [destruct (_ || _); apply Hq|].
    unfold I. cbn [ds_tin ds_in]. rewrite skipn_length. lia. }
  assert (H1 : forall s s', I s -> deflate_turn f s = inl s' -> I s').
  { intros s s' Hs Et. pose proof (Hstep s Hs) as X. rewrite Et in X. exact X. }
  assert (H2 : forall s r, I s -> deflate_turn f s = inr r -> Q r).
  { intros s r Hs Et. pose proof (Hstep s Hs) as X. rewrite Et in X. exact X. }
  specialize (H H1 H2 40%nat {| ds_c := c; ds_in := input; ds_room := out_len; ds_tin := 0; ds_rout := [] |}).
  assert (H0 : I {| ds_c := c; ds_in := input; ds_room := out_len; ds_tin := 0; ds_rout := [] |}) by (unfold I; cbn; lia).
  specialize (H H0).
  destruct (iter_pow 40 (deflate_turn f) _) as [s'|rr]; [discriminate|].
  intros E0. subst rr. exact H.
Qed.

Theorem ddrive_finished sched : forall c rest acc n out n',
  Forall (fun it => legal_mz_flush (snd it)) sched ->
  DGI acc c n -> (c_finished c = false -> rest = skipn (N.to_nat n) data) ->
  ddrive c rest sched acc n = Ret (Some (out, n')) -> finished_with data flags wb out n'.
Proof.
  induction sched as [|[[m out_len] f] sched IH]; intros c rest acc n out n' Hleg HD Hrest; cbn [ddrive]; [discriminate|].
  inversion Hleg as [|it its Hf Hl']; subst. cbn [snd] in Hf.
  destruct (deflate c (firstn (N.to_nat m) rest) out_len f) as [d| |] eqn:Ed; cbn [bind]; try discriminate.
  destruct d as [code ncons o c'|]; [|discriminate].
  assert (Hn : c_finished c = false -> n <= total data).
  { intros Hnf. destruct HD as [[_ [(A & HBI & _ & Hn & _)|[Hfin _]]]|[_ (Hn & _)]]; [|congruence|exact Hn].
    destruct HBI as (_ & Hle & _). lia. }
  assert (Hpre : c_finished c = false ->
                 n <= N.min (n + m) (total data) /\ N.min (n + m) (total data) <= total data /\
                 firstn (N.to_nat m) rest = slice data n (N.min (n + m) (total data))).
  { intros Hnf. specialize (Hn Hnf). split; [lia|]. split; [lia|].
    rewrite (Hrest Hnf). unfold slice. rewrite firstn_min, skipn_length. f_equal. unfold total in *. lia. }
  pose proof (deflate_DGI acc c n _ _ out_len f _ Hf HD Hpre Ed) as Hp.
  pose proof (deflate_consumed _ _ _ _ _ _ _ _ Ed) as Hcons.
  unfold dpost in Hp.
  destruct (code =? D_MZ_STREAM_END)%Z.
  { intros H; inversion H; subst out n'. exact (proj2 Hp). }
  destruct ((code =? D_MZ_OK)%Z || (code =? D_MZ_ERR_BUF)%Z); [|discriminate].
  apply (IH c' _ _ _ out n' Hl' Hp).
  intros Hnf'.
  assert (Hcf : c_finished c = false).
  { destruct (c_finished c) eqn:Hfin; [|reflexivity].
    rewrite (deflate_keeps_finished _ _ _ _ _ _ _ _ Hfin Ed) in Hnf'. discriminate. }
  rewrite (Hrest Hcf), skipn_skipn_add. f_equal. lia.
Qed.

End Deflate.

Lemma finished_with_spec (data : list N) (flags wb : N) out n :
  wb <= 15 -> bytes_ok data -> finished_with data flags wb out n ->
  n <= N.of_nat (length data) /\
  exists blocks,
    (if hasf flags FLAG_ZLIB then zlib_spec true out else inflate_spec out)
    = SDone (firstn (N.to_nat n) data) (N.of_nat (length out)) blocks.
Proof.
  intros Hwb Hbytes Hd.
  destruct Hd as (Hn & chunks & last & Hsm & Hl & Hcat & Hout).
  split; [exact Hn|].
  assert (Hbp : bytes_ok (concat chunks ++ last)) by (rewrite Hcat; apply bytes_ok_firstn, Hbytes).
  apply bytes_ok_app in Hbp. destruct Hbp as [Hb1 Hb2].
  pose proof (chunks_ok_of chunks Hsm Hb1) as Hc.
  assert (Hl2 : N.of_nat (length last) <= 65535) by (unfold BS in Hl; lia).
  exists (map (sblk false) chunks ++ [sblk true last]).
  subst out. unfold FIN.
  replace (concat (map (stored_block false) chunks) ++ stored_block true last ++
           (if hasf flags FLAG_ZLIB then be32 (adler32 1 (firstn (N.to_nat n) data)) else []))
    with (stored_stream chunks last ++ (if hasf flags FLAG_ZLIB then be32 (adler32 1 (firstn (N.to_nat n) data)) else []))
    by (rewrite stored_stream_concat, <- app_assoc; reflexivity).
  destruct (hasf flags FLAG_ZLIB) eqn:Z.
  - destruct (hdr_ok_wb flags wb Hwb Z) as (cmf & flg & Eh & Hok). rewrite Eh. cbn [app].
    pose proof (zlib_stored_stream cmf flg chunks last Hok Hc Hb2 Hl2) as Hz. cbv zeta in Hz.
    rewrite Hcat in Hz. rewrite Hz. f_equal.
    assert (Hb : forall a, length (be32 a) = 4%nat) by reflexivity.
    cbn [length]. rewrite app_length, Hb. lia.
  - rewrite (hdr_nonzlib flags wb Z), app_nil_r. cbn [app].
    pose proof (inflate_stored_stream chunks last [] Hc Hb2 Hl2) as Hi. rewrite app_nil_r, Hcat in Hi.
    exact Hi.
Qed.

Theorem level0_every_deflate_schedule (data : list N) (flags wb : N) sched out n :
  hasf flags FLAG_RAW = true -> wb <= 15 -> bytes_ok data ->
  Forall (fun it => legal_mz_flush (snd it)) sched ->
  ddrive (comp_new flags wb) data sched [] 0 = Ret (Some (out, n)) ->
  n <= N.of_nat (length data) /\
  exists blocks,
    (if hasf flags FLAG_ZLIB then zlib_spec true out else inflate_spec out)
    = SDone (firstn (N.to_nat n) data) (N.of_nat (length out)) blocks.
Proof.
  intros Hraw Hwb Hbytes Hleg Hd.
  apply (ddrive_finished data flags wb Hraw Hwb sched _ _ _ _ _ _ Hleg) in Hd.
  - apply (finished_with_spec data flags wb); assumption.
  - left. apply (GI2_init data flags wb).
  - intros _. reflexivity.
Qed.
