(* M_inf and the zlib header: a stream whose two header bytes the (regenerated)
   validate_zlib_header rejects is never accepted - the first call fails after exactly the two
   header bytes, whatever follows them, whatever the buffer, for every flag word with
   PARSE_ZLIB_HEADER. *)
From Coq Require Import NArith ZArith List Bool Lia.
From MZ.lib Require Import Arr Bits Mach.
From MZ.spec Require Import Adler.
From MZ.gen Require GenZlib.
From MZ.model Require Import InflateCore.
From MZ.proofs Require Import IterPow InflateBasic.
Import ListNotations.
Local Open Scope N_scope.

Definition header_rejected (cmf flg flags mask : N) : bool :=
  let '((_, target), _) := GenZlib.validate_zlib_header (Z.of_N cmf) (Z.of_N flg) (Z.of_N flags) (Z.of_N mask) in
  (target =? GenZlib.e_State_BadZlibHeader)%Z.

Section Turns.
Variables (flags : N) (in_buf : list N) (in_len omax mask : N).
Notation T := (turn flags in_buf in_len omax mask).

Lemma turn_start c :
  st c = Start -> has flags F_ZLIB = true ->
  T c = inl (set_st (mk (r_hdr (rr c) 0 0 1 1) (st c) 0 0 0 0 0 (inp c) (ileft c) (out c) (pos c)) ReadZlibCmf).
Proof. intros E Hz. unfold turn, step. rewrite E, Hz. reflexivity. Qed.

Lemma turn_cmf c b rest :
  st c = ReadZlibCmf -> inp c = b :: rest ->
  T c = inl (set_st (set_rr (set_in c rest (ileft c - 1))
                            (r_hdr (rr c) b (d_zh1 (rr c)) (d_zadler (rr c)) (d_check (rr c)))) ReadZlibFlg).
Proof. intros E Hi. unfold turn, step, read_byte. rewrite E, Hi. reflexivity. Qed.

Lemma turn_flg_bad c b rest :
  st c = ReadZlibFlg -> inp c = b :: rest ->
  header_rejected (d_zh0 (rr c)) b flags mask = true ->
  T c = inl (set_st (set_rr (set_in c rest (ileft c - 1))
                            (r_hdr (rr c) (d_zh0 (rr c)) b (d_zadler (rr c)) (d_check (rr c)))) BadZlibHeader).
Proof.
  intros E Hi Hr. unfold turn, step, read_byte. rewrite E, Hi.
  cbn [set_in mk rr]. unfold header_rejected in Hr.
  destruct (GenZlib.validate_zlib_header _ _ _ _) as [[x target] ok]. rewrite Hr. reflexivity.
Qed.
End Turns.

Lemma run_bad_header flags rest cmf flg omax mask r o out_pos :
  has flags F_ZLIB = true ->
  header_rejected cmf flg flags mask = true ->
  d_state r = Start ->
  exists c',
    run flags (cmf :: flg :: rest) (N.of_nat (length (cmf :: flg :: rest))) omax mask
        (mk r (d_state r) (d_bit_buf r) (d_num_bits r) (d_dist r) (d_counter r) (d_num_extra r)
            (cmf :: flg :: rest) (N.of_nat (length (cmf :: flg :: rest))) o out_pos)
    = Ret (Failed, c')
    /\ st c' = BadZlibHeader /\ inp c' = rest /\ ileft c' = N.of_nat (length rest)
    /\ out c' = o /\ pos c' = out_pos /\ nb c' = 0 /\ bb c' = 0.
Proof.
  intros Hz Hrej Hst.
  set (c0 := mk r _ _ _ _ _ _ _ _ _ _).
  set (T := turn flags (cmf :: flg :: rest) (N.of_nat (length (cmf :: flg :: rest))) omax mask).
  assert (Hs : exists c', steps T 4 c0 = inr (Ret (Failed, c'))
               /\ st c' = BadZlibHeader /\ inp c' = rest /\ ileft c' = N.of_nat (length rest)
               /\ out c' = o /\ pos c' = out_pos /\ nb c' = 0 /\ bb c' = 0).
  { unfold c0. rewrite Hst. cbn [steps].
    unfold T. rewrite turn_start by (try reflexivity; assumption).
    erewrite turn_cmf by reflexivity.
    erewrite turn_flg_bad by (try reflexivity; exact Hrej).
    rewrite turn_failure by reflexivity.
    eexists. split; [reflexivity|].
    cbn [st inp ileft out pos nb bb set_st set_rr set_in mk]. repeat split; try reflexivity.
    cbn [length]. lia. }
  destruct Hs as [c' [Hs Hp]]. exists c'. split; [|exact Hp].
  unfold run. fold T.
  rewrite (iter_pow_inr T 4 62 c0 _ Hs); [reflexivity|].
  apply Nat.le_trans with (2 ^ 2)%nat; [cbn; lia|apply Nat.pow_le_mono_r; lia].
Qed.

Definition call_mask (o : arr) (flags : N) : N :=
  if has flags F_NONWRAP then USIZE_MAX else alen o - 1.

Theorem bad_zlib_header_rejected r cmf flg rest o out_pos out_max flags :
  has flags F_ZLIB = true ->
  d_state r = Start ->
  geometry_ok o out_pos flags = true ->
  alen o <= USIZE_MAX ->
  header_rejected cmf flg flags (call_mask o flags) = true ->
  exists r',
    decompress r (cmf :: flg :: rest) o out_pos out_max flags
    = Ret {| cr_status := Failed; cr_in := 2; cr_out := 0; cr_buf := o; cr_dec := r' |}
    /\ d_state r' = BadZlibHeader.
Proof.
  intros Hz Hst Hg Hlen Hrej. unfold geometry_ok in Hg. unfold decompress.
  fold (call_mask o flags) in *. set (mask := call_mask o flags) in *.
  apply andb_true_iff in Hg. destruct Hg as [Hg1 Hg2].
  rewrite Hg1. cbn [negb orb].
  apply N.leb_le in Hg2.
  assert (Hlt : (alen o <? out_pos) = false) by (apply N.ltb_ge; exact Hg2).
  rewrite Hlt.
  set (omax := N.min (N.min (out_pos + out_max) USIZE_MAX) (alen o)).
  destruct (run_bad_header flags rest cmf flg omax mask r o out_pos Hz Hrej Hst)
    as (c' & Hrun & Hs & Hi & Hil & Ho & Hp & Hnb & Hbb).
  rewrite Hrun. cbn [bind]. rewrite Hil, Hnb, Hs, Hp, Ho, Hbb.
  cbn [length].
  replace (N.of_nat (S (S (length rest))) - N.of_nat (length rest)) with 2 by lia.
  change (2 mod U32) with 2.
  change (undo_bytes 0 2) with (0, 0).
  assert (Hom : out_pos <= omax) by (unfold omax; unfold USIZE_MAX in *; lia).
  unfold csub at 1. rewrite (proj2 (N.leb_le _ _) Hom). cbn [bind].
  change (0 <? 64) with true. cbn [guard bind].
  rewrite N.leb_refl. cbn [guard bind].
  change (0 <=? status_code Failed)%Z with false. rewrite andb_false_r.
  unfold csub. cbn [N.leb N.compare bind]. rewrite ?N.sub_diag, ?N.sub_0_r.
  eexists. split; [reflexivity|]. reflexivity.
Qed.

From MZ.spec Require Zlib.
From MZ.proofs Require ZlibHeader.

Lemma header_rejected_spec cmf flg flags mask :
  cmf < 256 -> flg < 256 -> mask < 2 ^ 64 - 1 ->
  header_rejected cmf flg flags mask
  = negb (Zlib.valid_header (Z.of_N cmf) (Z.of_N flg))
    || ((Z.land (Z.of_N flags) 4 =? 0)%Z && (Z.of_N mask + 1 <? Zlib.header_window (Z.of_N cmf))%Z).
Proof.
  intros Hc Hf Hm. unfold header_rejected.
  rewrite (ZlibHeader.validate_zlib_header_spec (Z.of_N cmf) (Z.of_N flg) (Z.of_N flags) (Z.of_N mask)) by
      (try (change (2 ^ 64 - 1)%Z with (Z.of_N (2 ^ 64 - 1))); lia).
  unfold ZlibHeader.validate_abs.
  destruct (negb _ || _); reflexivity.
Qed.
