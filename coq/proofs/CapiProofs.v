From Coq Require Import NArith ZArith Bool Lia.
From MZ.gen Require Import GenZlib.
From MZ.model Require Import Capi.
Local Open Scope N_scope.

(* exact accounting: the input pointer advances by exactly the drop in available input and the
   rise in total input (modulo the 64-bit counter), never beyond what was available *)
Lemma mz_apply_accounting s c w s' :
  total_in s < C_ULONG -> total_out s < C_ULONG -> c < C_ULONG -> w < C_ULONG ->
  mz_apply s c w = Some s' ->
  next_in s' - next_in s = c /\ avail_in s - avail_in s' = c /\
  (total_in s' + C_ULONG - total_in s) mod C_ULONG = c /\
  next_in s' + avail_in s' = next_in s + avail_in s /\
  next_out s' - next_out s = w /\ avail_out s - avail_out s' = w /\
  (total_out s' + C_ULONG - total_out s) mod C_ULONG = w /\
  next_out s' + avail_out s' = next_out s + avail_out s.
Proof.
  intros Hti Hto Hc Hw. unfold mz_apply.
  destruct ((c <=? avail_in s) && (w <=? avail_out s)) eqn:E; [|discriminate].
  apply andb_true_iff in E. destruct E as [E1 E2]. apply N.leb_le in E1. apply N.leb_le in E2.
  intros H; inversion H; subst; clear H. cbn [next_in avail_in total_in next_out avail_out total_out].
  assert (Hmod : forall t x, t < C_ULONG -> x < C_ULONG -> ((t + x) mod C_ULONG + C_ULONG - t) mod C_ULONG = x).
  { intros t x Ht Hx. unfold C_ULONG in *.
    destruct (N.lt_ge_cases (t + x) 18446744073709551616) as [Hlt|Hge].
    - rewrite (N.mod_small (t + x)) by lia.
      replace (t + x + 18446744073709551616 - t) with (x + 1 * 18446744073709551616) by lia.
      rewrite N.mod_add by lia. apply N.mod_small; lia.
    - assert (Hm : (t + x) mod 18446744073709551616 = t + x - 18446744073709551616).
      { replace (t + x) with ((t + x - 18446744073709551616) + 1 * 18446744073709551616) at 1 by lia.
        rewrite N.mod_add by lia. apply N.mod_small; lia. }
      rewrite Hm. replace (t + x - 18446744073709551616 + 18446744073709551616 - t) with x by lia.
      apply N.mod_small; lia. }
  repeat split; try lia; apply Hmod; assumption.
Qed.

Local Open Scope Z_scope.

(* C flush values: 0 -> None, 1 | 2 -> Sync, 3 -> Full, 4 -> Finish, anything else -> MZ_PARAM_ERROR *)
Lemma mzflush_new_table f :
  mzflush_new f =
  (if (f =? 0) then (0, 0) else if (f =? 1) || (f =? 2) then (0, 2) else if f =? 3 then (0, 3)
   else if f =? 4 then (0, 4) else (1, -10000), true).
Proof.
  unfold mzflush_new.
  destruct (f =? 0); [reflexivity|]. destruct ((f =? 1) || (f =? 2)); [reflexivity|].
  destruct (f =? 3); [reflexivity|]. destruct (f =? 4); reflexivity.
Qed.

Lemma mzflush_new_error f : f < 0 \/ 4 < f -> fst (mzflush_new f) = (1, -10000).
Proof.
  intros H. rewrite mzflush_new_table. cbn [fst].
  replace (f =? 0) with false by (symmetry; apply Z.eqb_neq; lia).
  replace (f =? 1) with false by (symmetry; apply Z.eqb_neq; lia).
  replace (f =? 2) with false by (symmetry; apply Z.eqb_neq; lia).
  replace (f =? 3) with false by (symmetry; apply Z.eqb_neq; lia).
  replace (f =? 4) with false by (symmetry; apply Z.eqb_neq; lia).
  reflexivity.
Qed.

(* only |window_bits| = 15 is accepted *)
Lemma invalid_window_bits_spec w :
  -2147483648 < w <= 2147483647 ->
  invalid_window_bits w = (negb ((w =? 15) || (w =? -15)), true).
Proof.
  intros H. unfold invalid_window_bits, swrap, inrange.
  assert (E : (- w + 2 ^ (32 - 1)) mod 2 ^ 32 - 2 ^ (32 - 1) = - w).
  { change (2 ^ (32 - 1)) with 2147483648. change (2 ^ 32) with 4294967296.
    rewrite Z.mod_small by lia. lia. }
  rewrite E.
  f_equal.
  - destruct (w =? 15) eqn:A; destruct (w =? -15) eqn:B; destruct (- w =? 15) eqn:C; cbn; try reflexivity;
      repeat match goal with
             | H : (_ =? _) = true |- _ => apply Z.eqb_eq in H
             | H : (_ =? _) = false |- _ => apply Z.eqb_neq in H
             end; lia.
  - destruct (negb (w =? 15)); cbn; [|reflexivity].
    apply andb_true_intro; split; apply Z.leb_le; lia.
Qed.
