(* iter_pow k f s runs f for 2^k sequential steps (stopping at the first inr). *)
From Coq Require Import Arith NArith List Lia.
Local Open Scope nat_scope.
From MZ.lib Require Import Mach.

Section Steps.
Context {S R : Type}.
Variable f : S -> S + R.

Fixpoint steps (n : nat) (s : S) : S + R :=
  match n with
  | O => inl s
  | Datatypes.S n' => match f s with inl s' => steps n' s' | inr r => inr r end
  end.

Lemma steps_add n m s :
  steps (n + m) s = match steps n s with inl s' => steps m s' | inr r => inr r end.
Proof.
  revert s; induction n as [|n IH]; intros s; cbn [steps plus]; [reflexivity|].
  destruct (f s) as [s'|r]; [apply IH|reflexivity].
Qed.

Lemma iter_pow_steps k s : iter_pow k f s = steps (2 ^ k) s.
Proof.
  revert s; induction k as [|k IH]; intros s.
  - cbn. destruct (f s); reflexivity.
  - cbn [iter_pow]. replace (2 ^ Datatypes.S k) with (2 ^ k + 2 ^ k) by (cbn; lia).
    rewrite steps_add, IH. destruct (steps (2 ^ k) s) as [s'|r]; [apply IH|reflexivity].
Qed.

Lemma steps_inr_mono n m s r : steps n s = inr r -> n <= m -> steps m s = inr r.
Proof.
  intros H Hle. replace m with (n + (m - n)) by lia. rewrite steps_add, H. reflexivity.
Qed.

Lemma iter_pow_inr n k s r : steps n s = inr r -> n <= 2 ^ k -> iter_pow k f s = inr r.
Proof. intros H Hle. rewrite iter_pow_steps. eapply steps_inr_mono; eassumption. Qed.

(* invariant reasoning: if every inl-step preserves I and every inr-result from an I-state
   satisfies Q, then the final result satisfies Q *)
Lemma steps_inv (I : S -> Prop) (Q : R -> Prop) :
  (forall s s', I s -> f s = inl s' -> I s') ->
  (forall s r, I s -> f s = inr r -> Q r) ->
  forall n s, I s -> match steps n s with inl s' => I s' | inr r => Q r end.
Proof.
  intros Hs Hr. induction n as [|n IH]; intros s HI; cbn [steps]; [exact HI|].
  destruct (f s) as [s'|r] eqn:E; [apply IH; eapply Hs; eassumption|eapply Hr; eassumption].
Qed.

Lemma iter_pow_inv (I : S -> Prop) (Q : R -> Prop) :
  (forall s s', I s -> f s = inl s' -> I s') ->
  (forall s r, I s -> f s = inr r -> Q r) ->
  forall k s, I s -> match iter_pow k f s with inl s' => I s' | inr r => Q r end.
Proof. intros Hs Hr k s HI. rewrite iter_pow_steps. apply steps_inv; assumption. Qed.
End Steps.

Lemma pow2_ge1 k : 1 <= 2 ^ k.
Proof. induction k; cbn; lia. Qed.
