(* inflate::stream::inflate makes progress (C13), for EVERY input - valid stream or not: a call that is given
   non-empty input and a non-empty output buffer and reports MZ_OK has consumed at least one byte or delivered
   at least one byte; every other code is a terminal or error result.  Rests on the truthful-status half of
   decompress_frame (NeedsMoreInput only with all input consumed, HasMoreOutput only with the window full) and on
   the bookkeeping invariant dict_ofs < 32768, which every constructor, reset and call preserves. *)
From Coq Require Import NArith ZArith List Bool Lia.
From MZ.lib Require Import Arr Bits Mach.
From MZ.model Require Import InflateCore InflateStream.
From MZ.proofs Require Import IterPow InflateFrame3 InflateStreamCounts.
Import ListNotations.
Local Open Scope N_scope.
Ltac Zify.zify_post_hook ::= Z.div_mod_to_equations.

(* the decoder itself: a call that asks to be called again has consumed or written something, given something of each *)
Lemma decompress_progress r input o out_pos out_max flags res :
  alen o <= USIZE_MAX -> decompress r input o out_pos out_max flags = Ret res ->
  input <> [] -> 0 < N.min out_max (alen o - out_pos) ->
  (cr_status res = NeedsMoreInput -> 0 < cr_in res) /\ (cr_status res = HasMoreOutput -> 0 < cr_out res).
Proof.
  intros Hrep Hd Hin Hroom. destruct (decompress_frame _ _ _ _ _ _ _ Hrep Hd) as (_ & _ & _ & _ & Fh & Fn).
  split; [intros X; rewrite (Fn X); destruct input; [contradiction|cbn [length]; lia]|intros X; rewrite (Fh X); exact Hroom].
Qed.

(* the window bookkeeping, with the offset strictly inside the window *)
Definition WFo (s : istream) : Prop := WF s /\ is_ofs s < DICT.

Lemma WFo_new fmt : WFo (is_new fmt).
Proof. split; [apply WF_new|]. cbn. unfold DICT. lia. Qed.
Lemma WFo_min_reset s : WFo s -> WFo (min_reset s).
Proof. intros [H _]. split; [apply WF_min_reset; exact H|]. cbn. unfold DICT. lia. Qed.
Lemma WFo_zero_reset s : WFo s -> WFo (zero_reset s).
Proof. intros [H _]. split; [apply WF_zero_reset; exact H|]. cbn. unfold DICT. lia. Qed.
Lemma WFo_full_reset fmt s : WFo s -> WFo (full_reset fmt s).
Proof. intros [H _]. split; [apply WF_full_reset; exact H|]. cbn. unfold DICT. lia. Qed.

Lemma push_dict_out_ofs s room bytes s' :
  push_dict_out s room = (bytes, s') -> is_ofs s' < DICT /\ (N.min (is_avail s) room = 0 -> is_ofs s < DICT -> is_ofs s' = is_ofs s).
Proof.
  unfold push_dict_out. intros H; inversion H; subst bytes s'; clear H. cbn [mk_is is_ofs].
  unfold DICT. change 32767 with (N.ones 15). rewrite !N.land_ones. change (2 ^ 15) with 32768.
  split; [apply N.mod_lt; lia|]. intros -> Hlt. rewrite N.add_0_r. apply N.mod_small. exact Hlt.
Qed.

Section Loop.
Variables (decomp_flags flush orig_in_len : N).

(* progress made so far / nothing has happened yet *)
Definition PG (l : lstate) : Prop := 0 < l_tin l \/ l_rout l <> [].
Definition J (l : lstate) : Prop :=
  PG l \/ (l_in l <> [] /\ 0 < l_room l /\ WFo (l_s l) /\ is_avail (l_s l) = 0).

Definition JQ (r : res (Z * lstate)) : Prop :=
  match r with Ret (code, l) => code = MZ_OK -> PG l | _ => True end.

Lemma loop_turn_J l :
  WF (l_s l) -> J l ->
  match loop_turn decomp_flags flush orig_in_len l with
  | inl l' => J l'
  | inr r => JQ r
  end.
Proof.
  intros HW HJ. pose proof HW as [Hlen Hsum]. unfold loop_turn.
  destruct (decompress (is_dec (l_s l)) (l_in l) (is_dict (l_s l)) (is_ofs (l_s l)) USIZE_MAX decomp_flags)
    as [r| |] eqn:Ed; try exact I.
  apply decompress_frame in Ed; [|rewrite Hlen; unfold DICT, USIZE_MAX; lia].
  destruct Ed as (Fi & Fo & Fl & _ & Fhmo & Fnmi).
  cbv zeta.
  set (s1 := mk_is (cr_dec r) (cr_buf r) (is_ofs (l_s l)) (cr_out r) (is_first (l_s l)) (is_flushed (l_s l))
                   (is_fmt (l_s l)) (cr_status r)).
  assert (HW1 : WF s1).
  { unfold WF, s1. cbn [mk_is is_dict is_ofs is_avail]. rewrite Fl, Hlen in *. split; [reflexivity|].
    unfold DICT in *. lia. }
  destruct (DICT <? is_ofs s1 + N.min (is_avail s1) (l_room l)); [exact I|].
  destruct (push_dict_out s1 (l_room l)) as [bytes s2] eqn:Ep.
  destruct (push_dict_out_spec _ _ _ _ HW1 Ep) as (Hb & HW2 & Hav).
  destruct (push_dict_out_ofs _ _ _ _ Ep) as [Ho2 Hsame].
  change (is_avail s1) with (cr_out r) in Hb, Hav, Hsame. change (is_ofs s1) with (is_ofs (l_s l)) in Hsame.
  set (l' := {| l_s := s2; l_in := skipn (N.to_nat (cr_in r)) (l_in l);
                l_room := l_room l - N.of_nat (length bytes);
                l_tin := l_tin l + cr_in r; l_rout := rev_append bytes (l_rout l) |}).
  (* what the successor record satisfies *)
  assert (HPG : PG l -> PG l').
  { intros [H|H]; [left; unfold l'; cbn [l_tin]; lia|right]. unfold l'. cbn [l_rout].
    rewrite rev_append_rev. intros X. apply app_eq_nil in X. destruct X as [_ X]. exact (H X). }
  assert (Hcase : PG l' \/
                  (cr_in r = 0 /\ cr_out r = 0 /\ cr_status r <> NeedsMoreInput /\ cr_status r <> HasMoreOutput /\
                   l_in l' <> [] /\ 0 < l_room l' /\ WFo (l_s l') /\ is_avail (l_s l') = 0)).
  { destruct HJ as [HP|(Hin & Hroom & [_ Hofs] & Hav0)]; [left; exact (HPG HP)|].
    destruct (N.eq_dec (cr_in r) 0) as [Ei|Ei]; [|left; left; unfold l'; cbn [l_tin]; lia].
    destruct (N.eq_dec (cr_out r) 0) as [Eo|Eo].
    2:{ left. right. unfold l'. cbn [l_rout]. rewrite rev_append_rev. intros X. apply app_eq_nil in X.
        destruct X as [X _]. apply (f_equal (@length N)) in X. rewrite rev_length in X. cbn [length] in X. lia. }
    right. split; [exact Ei|]. split; [exact Eo|].
    split; [intros X; specialize (Fnmi X); destruct (l_in l); [contradiction|cbn [length] in Fnmi; lia]|].
    split; [intros X; specialize (Fhmo X); rewrite Hlen in Fhmo; unfold DICT, USIZE_MAX in *; lia|].
    unfold l'. cbn [l_in l_room l_s]. rewrite Ei. cbn [N.to_nat skipn].
    assert (Hb0 : N.of_nat (length bytes) = 0) by lia.
    split; [exact Hin|]. split; [lia|]. split; [split; [exact HW2|exact Ho2]|]. lia. }
  destruct (status_eqb (cr_status r) FailedCannotMakeProgress); [cbn; discriminate|].
  destruct (is_neg (cr_status r)); [cbn; discriminate|].
  destruct (status_eqb (cr_status r) NeedsMoreInput && (orig_in_len =? 0)); [cbn; discriminate|].
  destruct (flush =? FL_FINISH).
  - destruct (status_eqb (cr_status r) Done).
    + cbn. destruct (negb (is_avail s2 =? 0)); discriminate.
    + destruct (l_room l' =? 0); [cbn; discriminate|].
      destruct Hcase as [HP|(_ & _ & _ & _ & H5 & H6 & H7 & H8)]; [left; exact HP|right; exact (conj H5 (conj H6 (conj H7 H8)))].
  - destruct (status_eqb (cr_status r) Done) eqn:Edone; cbn [orb].
    + cbn [andb JQ]. destruct (is_avail s2 =? 0) eqn:Eav; [discriminate|].
      intros _. destruct Hcase as [HP|(_ & _ & _ & _ & _ & _ & _ & H8)]; [exact HP|].
      unfold l' in H8. cbn [l_s] in H8. rewrite H8 in Eav. discriminate Eav.
    + destruct ((match l_in l' with [] => true | _ => false end || (l_room l' =? 0)) || negb (is_avail s2 =? 0)) eqn:Estop.
      * cbn [andb JQ]. intros _.
        destruct Hcase as [HP|(_ & _ & _ & _ & H5 & H6 & _ & H8)]; [exact HP|]. exfalso.
        unfold l' in H8. cbn [l_s] in H8. rewrite H8 in Estop. change (0 =? 0) with true in Estop. cbn [negb] in Estop.
        rewrite orb_false_r in Estop. apply orb_true_iff in Estop. destruct Estop as [X|X].
        -- destruct (l_in l'); [contradiction|discriminate X].
        -- apply N.eqb_eq in X. lia.
      * destruct Hcase as [HP|(_ & _ & _ & _ & H5 & H6 & H7 & H8)]; [left; exact HP|right; exact (conj H5 (conj H6 (conj H7 H8)))].
Qed.

Lemma inflate_loop_J in_len out_len l code l' :
  LI in_len out_len l -> J l ->
  inflate_loop decomp_flags flush orig_in_len l = Ret (code, l') -> code = MZ_OK -> PG l'.
Proof.
  intros HL HJ. unfold inflate_loop.
  pose proof (iter_pow_inv (loop_turn decomp_flags flush orig_in_len) (fun l => LI in_len out_len l /\ J l) JQ) as H.
  assert (H1 : forall s s', LI in_len out_len s /\ J s -> loop_turn decomp_flags flush orig_in_len s = inl s' ->
                            LI in_len out_len s' /\ J s').
  { intros s s' [Hs Hj] E. split.
    - pose proof (loop_turn_LI decomp_flags flush orig_in_len in_len out_len s Hs) as X. rewrite E in X. exact X.
    - pose proof (loop_turn_J s (proj1 Hs) Hj) as X. rewrite E in X. exact X. }
  assert (H2 : forall s r, LI in_len out_len s /\ J s -> loop_turn decomp_flags flush orig_in_len s = inr r -> JQ r).
  { intros s r0 [Hs Hj] E. pose proof (loop_turn_J s (proj1 Hs) Hj) as X. rewrite E in X. exact X. }
  specialize (H H1 H2 40%nat l (conj HL HJ)).
  destruct (iter_pow 40 (loop_turn decomp_flags flush orig_in_len) l) as [l0|rr]; [discriminate|].
  intros ->. exact H.
Qed.

(* the offset stays inside the window *)
Definition LO (l : lstate) : Prop := is_ofs (l_s l) < DICT.
Definition LOQ (r : res (Z * lstate)) : Prop := match r with Ret (_, l) => LO l | _ => True end.

Lemma loop_turn_LO l :
  match loop_turn decomp_flags flush orig_in_len l with
  | inl l' => LO l'
  | inr r => LOQ r
  end.
Proof.
  unfold loop_turn.
  destruct (decompress _ _ _ _ _ _) as [r| |]; try exact I. cbv zeta.
  match goal with |- context [push_dict_out ?a ?b] => destruct (push_dict_out a b) as [bytes s2] eqn:Ep end.
  destruct (push_dict_out_ofs _ _ _ _ Ep) as [Ho2 _].
  destruct (DICT <? _); [exact I|].
  repeat match goal with
         | |- context [if ?b then _ else _] => destruct b
         end; try exact Ho2; exact I.
Qed.

Lemma inflate_loop_LO l code l' :
  inflate_loop decomp_flags flush orig_in_len l = Ret (code, l') -> LO l'.
Proof.
  unfold inflate_loop.
  pose proof (iter_pow_inv (loop_turn decomp_flags flush orig_in_len) (fun _ => True) LOQ) as H.
  assert (H1 : forall s s' : lstate, True -> loop_turn decomp_flags flush orig_in_len s = inl s' -> True) by (intros; exact I).
  assert (H2 : forall s r, True -> loop_turn decomp_flags flush orig_in_len s = inr r -> LOQ r).
  { intros s r0 _ E. pose proof (loop_turn_LO s) as X. rewrite E in X. exact X. }
  specialize (H H1 H2 40%nat l I).
  destruct (iter_pow 40 (loop_turn decomp_flags flush orig_in_len) l) as [l0|rr]; [discriminate|].
  intros ->. exact H.
Qed.

End Loop.

Theorem inflate_progress s input out_len flush r :
  WFo s -> input <> [] -> 0 < out_len ->
  inflate s input out_len flush = Ret r -> sr_code r = MZ_OK ->
  0 < sr_in r \/ sr_out r <> [].
Proof.
  intros [HW Hofs] Hin Hol. unfold inflate, err.
  destruct (flush =? FL_FULL); [intros H; inversion H; subst r; cbn; discriminate|].
  cbv zeta.
  set (s0 := set_first s false).
  assert (HW0 : WF s0) by (apply (WF_setters s false (is_dec s) Done HW)).
  destruct (status_eqb (is_last s0) FailedCannotMakeProgress); [intros H; inversion H; subst r; cbn; discriminate|].
  destruct (is_neg (is_last s0)); [intros H; inversion H; subst r; cbn; discriminate|].
  destruct (is_flushed s0 && negb (flush =? FL_FINISH)); [intros H; inversion H; subst r; cbn; discriminate|].
  set (s1 := set_flushed s0 (is_flushed s0 || (flush =? FL_FINISH))).
  assert (HW1 : WF s1) by (apply (WF_setters s0 (is_flushed s0 || (flush =? FL_FINISH)) (is_dec s) Done HW0)).
  destruct ((flush =? FL_FINISH) && is_first s).
  - match goal with |- bind ?X _ = _ -> _ => destruct X as [cr| |] end; cbn [bind]; try discriminate.
    match goal with |- (let '(code, s2) := ?e in _) = _ -> _ => destruct e as [code s2] eqn:Ee end.
    intros H; inversion H; subst r; clear H. cbn [sr_code].
    repeat match type of Ee with
           | (if ?b then _ else _) = _ => destruct b
           end; inversion Ee; subst; discriminate.
  - destruct (negb (is_avail s1 =? 0)) eqn:Eav.
    + unfold guard. destruct (is_ofs s1 + N.min (is_avail s1) out_len <=? DICT); cbn [bind]; [|discriminate].
      destruct (push_dict_out s1 out_len) as [bytes s2] eqn:Ep.
      destruct (push_dict_out_spec _ _ _ _ HW1 Ep) as (Hb & _ & _).
      intros H; inversion H; subst r; clear H. cbn [sr_in sr_out]. intros _. right.
      apply negb_true_iff, N.eqb_neq in Eav. intros X. rewrite X in Hb. cbn [length] in Hb. lia.
    + match goal with |- bind ?X _ = _ -> _ => destruct X as [[code l]| |] eqn:El end; cbn [bind]; try discriminate.
      intros H; inversion H; subst r; clear H. cbn [sr_code sr_in sr_out]. intros Hc.
      apply negb_false_iff, N.eqb_eq in Eav.
      eapply (inflate_loop_J _ _ _ (N.of_nat (length input)) out_len) in El; [| | |exact Hc].
      * destruct El as [X|X]; [left; exact X|right]. rewrite rev_append_rev, app_nil_r. intros Y.
        apply (f_equal (@rev N)) in Y. rewrite rev_involutive in Y. exact (X Y).
      * unfold LI. cbn [l_s l_in l_room l_tin l_rout length]. split; [exact HW1|]. lia.
      * right. cbn [l_s l_in l_room]. exact (conj Hin (conj Hol (conj (conj HW1 Hofs) Eav))).
Qed.

(* every call keeps the offset inside the window *)
Theorem inflate_WFo s input out_len flush r :
  WFo s -> out_len <= USIZE_MAX -> inflate s input out_len flush = Ret r -> WFo (sr_state r).
Proof.
  intros [HW Hofs] Hol Hr. split; [exact (proj2 (proj2 (inflate_counts s input out_len flush r HW Hol Hr)))|].
  revert Hr. unfold inflate, err.
  destruct (flush =? FL_FULL); [intros H; inversion H; subst r; exact Hofs|].
  cbv zeta.
  destruct (status_eqb _ FailedCannotMakeProgress); [intros H; inversion H; subst r; exact Hofs|].
  destruct (is_neg _); [intros H; inversion H; subst r; exact Hofs|].
  destruct (_ && negb (flush =? FL_FINISH)); [intros H; inversion H; subst r; exact Hofs|].
  destruct ((flush =? FL_FINISH) && is_first s).
  - match goal with |- bind ?X _ = _ -> _ => destruct X as [cr| |] end; cbn [bind]; try discriminate.
    match goal with |- (let '(code, s2) := ?e in _) = _ -> _ => destruct e as [code s2] eqn:Ee end.
    intros H; inversion H; subst r; clear H. cbn [sr_state].
    repeat match type of Ee with
           | (if ?b then _ else _) = _ => destruct b
           end; inversion Ee; subst; exact Hofs.
  - destruct (negb (_ =? 0)).
    + unfold guard. destruct (_ <=? DICT); cbn [bind]; [|discriminate].
      match goal with |- context [push_dict_out ?a ?b] => destruct (push_dict_out a b) as [bytes s2] eqn:Ep end.
      destruct (push_dict_out_ofs _ _ _ _ Ep) as [Ho2 _].
      intros H; inversion H; subst r; clear H. exact Ho2.
    + match goal with |- bind ?X _ = _ -> _ => destruct X as [[code l]| |] eqn:El end; cbn [bind]; try discriminate.
      intros H; inversion H; subst r; clear H. cbn [sr_state].
      exact (inflate_loop_LO _ _ _ _ _ _ El).
Qed.
