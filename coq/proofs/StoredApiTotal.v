(* Level 0, one-shot, as a closed statement about both models: for every input under 2^36 bytes
   compress_to_vec_inner returns a vector (StoredVecTotal.v: it neither panics nor runs out of fuel) and
   decompress_to_vec_inner applied to that vector returns the input (StoredApiRoundtrip.v). *)
From Coq Require Import NArith ZArith List Bool Lia.
From MZ.lib Require Import Arr Bits Mach.
From MZ.spec Require Import DeflateSpec.
From MZ.model Require Import DeflateCore.
From MZ.model Require InflateCore InflateStream.
From MZ.proofs Require Import StoredSpec StoredModel StoredApiRoundtrip StoredVecTotal.
Import ListNotations.
Local Open Scope N_scope.

Theorem level0_api_total (data : list N) (cflags iflags0 : N) :
  hasf cflags FLAG_RAW = true -> bytes_ok data -> N.of_nat (length data) < 2 ^ 36 ->
  InflateCore.has (N.lor iflags0 InflateCore.F_NONWRAP) InflateCore.F_ZLIB = hasf cflags FLAG_ZLIB ->
  InflateCore.has (N.lor iflags0 InflateCore.F_NONWRAP) InflateCore.F_STOPBB = false ->
  exists out,
    compress_to_vec_inner data cflags = Ret (VBytes out) /\
    InflateStream.decompress_to_vec_inner out iflags0 USIZE_MAX = Ret (InflateStream.VOk data).
Proof.
  intros Hraw Hb Hsmall Hz Hs.
  pose proof (compress_to_vec_level0_total data cflags Hraw Hsmall) as Hc.
  exists (FULL data cflags 15). split; [exact Hc|].
  apply (level0_api_roundtrip data cflags iflags0 _ Hraw Hb Hc Hz Hs).
  pose proof (FULL_length data cflags 15) as Hl. unfold total in Hl.
  change (2 ^ 57) with 144115188075855872. change (2 ^ 36) with 68719476736 in Hsmall. lia.
Qed.
