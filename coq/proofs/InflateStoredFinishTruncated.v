(* C13: "a finish request on a truncated stream is a buffer error" - on streams of stored blocks: inflate() called with
   Finish on a fresh object and a stream cut anywhere reports MZ_ERR_BUF, whatever the output length.  The one-call
   path of inflate() decodes straight into the caller's buffer without the has-more-input flag, so this is
   InflateStoredStarved.truncated_stored_stream_without_more seen through the wrapper. *)
From Coq Require Import NArith ZArith List Bool Lia Arith.
From MZ.lib Require Import Arr Bits Mach.
From MZ.spec Require Import Adler DeflateSpec Zlib.
From MZ.model Require Import InflateCore InflateStream.
From MZ.proofs Require Import IterPow StoredSpec InflateStoredZ InflateStoredChunks InflateStoredStream.
From MZ.proofs Require InflateStoredStarved InflateStreamCounts InflateFrame3.
Import ListNotations.
Local Open Scope N_scope.

Lemma sfl_finish_nomore fmt : has (sfl_finish fmt) F_MORE = false.
Proof. destruct fmt; vm_compute; reflexivity. Qed.

Theorem inflate_finish_truncated fmt cmf flg A chunks last extra input fut out_len :
  cmf < 256 -> flg < 256 -> valid_header (Z.of_N cmf) (Z.of_N flg) = true -> A < 2 ^ 32 ->
  chunks_ok chunks -> bytes_ok last -> N.of_nat (length last) <= 65535 ->
  let zl := zl_of fmt in
  let stream := (if zl then [cmf; flg] else []) ++ stored_stream chunks last ++ (if zl then be32 A else []) in
  input ++ fut = stream ++ extra -> N.of_nat (length extra) < N.of_nat (length fut) ->
  out_len <= USIZE_MAX -> N.of_nat (length input) < 2 ^ 57 ->
  exists r, inflate (is_new fmt) input out_len FL_FINISH = Ret r /\ sr_code r = MZ_ERR_BUF /\
            sr_in r <= N.of_nat (length input) /\
            sr_out r = firstn (length (sr_out r)) (concat chunks ++ last).
Proof.
  intros Hcmf Hflg Hvalid HA Hc Hl1 Hl2 zl stream Hcat Hcut Hrep Hshort.
  destruct (sfl_finish_has fmt) as (HZ & HSB & HNW).
  destruct (InflateStoredStarved.truncated_stored_stream_without_more (sfl_finish fmt) zl cmf flg A chunks last extra input fut
              (amake out_len 0) USIZE_MAX HZ HSB HNW (sfl_finish_nomore fmt) Hcmf Hflg Hvalid HA Hc Hl1 Hl2 Hcat Hcut
              ltac:(cbn [alen amake]; exact Hrep) Hshort) as (res & Hd & Hs & Hpfx).
  unfold inflate. change (FL_FINISH =? FL_FULL) with false. cbv iota.
  cbn [is_new is_fmt is_first is_last is_flushed set_first set_flushed set_last set_dec mk_is is_dec is_dict is_ofs is_avail].
  change (status_eqb NeedsMoreInput FailedCannotMakeProgress) with false.
  change (is_neg NeedsMoreInput) with false. cbn [andb orb negb].
  change (FL_FINISH =? FL_FINISH) with true. cbn [andb orb negb].
  fold (sflags0 fmt). fold (sfl_finish fmt).
  rewrite Hd. cbn [bind].
  assert (Hlen : length (aget_list (cr_buf res) 0 (cr_out res)) = N.to_nat (cr_out res)).
  { apply Nat2N.inj. rewrite InflateStreamCounts.length_aget_list, N2Nat.id. reflexivity. }
  assert (Hin : cr_in res <= N.of_nat (length input)).
  { assert (Hal : alen (amake out_len 0) <= USIZE_MAX) by (cbn [alen amake]; exact Hrep).
    pose proof (InflateFrame3.decompress_frame _ _ _ _ _ _ _ Hal Hd) as (X & _). exact X. }
  destruct Hs as [[Hs _]|[Hs _]]; rewrite Hs.
  - change (status_eqb FailedCannotMakeProgress FailedCannotMakeProgress) with true. cbv iota.
    eexists. split; [reflexivity|]. cbn [sr_code sr_in sr_out]. split; [reflexivity|]. split; [exact Hin|].
    rewrite Hlen. exact Hpfx.
  - change (status_eqb HasMoreOutput FailedCannotMakeProgress) with false. change (is_neg HasMoreOutput) with false.
    change (status_eqb HasMoreOutput Done) with false. cbn [negb]. cbv iota.
    eexists. split; [reflexivity|]. cbn [sr_code sr_in sr_out]. split; [reflexivity|]. split; [exact Hin|].
    rewrite Hlen. exact Hpfx.
Qed.
