(* The two streaming wrappers composed at level 0 on the models: whatever schedule of deflate() calls (the
   function behind mz_deflate) drives the compressor model to the end, inflate() - called once with Finish on
   a fresh object, the way mz_uncompress does, or through any sequence of non-Finish calls with arbitrary
   slices and output lengths - gives back exactly the input the compressor consumed. *)
From Coq Require Import NArith ZArith List Bool Lia Arith.
From MZ.lib Require Import Arr Bits Mach.
From MZ.spec Require Import Adler DeflateSpec Zlib.
From MZ.model Require Import DeflateCore InflateCore InflateStream.
From MZ.proofs Require Import StoredSpec StoredModel StoredRoundtrip StoredStream StoredSchedules StoredDeflate
                              StoredEndToEndZ InflateStoredStream.
Import ListNotations.
Local Open Scope N_scope.

(* what a finished level-0 stream looks like, in the form the decoder theorems take *)
Lemma finished_shape data cflags wb out n :
  wb <= 15 -> bytes_ok data -> finished_with data cflags wb out n ->
  exists cmf flg chunks last,
    cmf < 256 /\ flg < 256 /\ valid_header (Z.of_N cmf) (Z.of_N flg) = true /\
    chunks_ok chunks /\ bytes_ok last /\ N.of_nat (length last) <= 65535 /\
    concat chunks ++ last = firstn (N.to_nat n) data /\ N.of_nat (length (firstn (N.to_nat n) data)) = n /\
    out = (if hasf cflags FLAG_ZLIB then [cmf; flg] else []) ++ stored_stream chunks last ++
          (if hasf cflags FLAG_ZLIB then be32 (adler32 1 (concat chunks ++ last)) else []).
Proof.
  intros Hwb Hbytes (Hn & chunks & last & Hsm & Hl & Hdat & Hout).
  assert (Hbp : bytes_ok (concat chunks ++ last)) by (rewrite Hdat; apply bytes_ok_firstn, Hbytes).
  apply bytes_ok_app in Hbp. destruct Hbp as [Hb1 Hb2].
  pose proof (chunks_ok_of chunks Hsm Hb1) as Hc.
  assert (Hl2 : N.of_nat (length last) <= 65535) by (unfold BS in Hl; lia).
  assert (Hlen : N.of_nat (length (firstn (N.to_nat n) data)) = n).
  { rewrite firstn_length. unfold StoredModel.total in Hn. lia. }
  unfold FIN in Hout.
  replace (concat (map (stored_block false) chunks) ++ stored_block true last ++
           (if hasf cflags FLAG_ZLIB then be32 (adler32 1 (firstn (N.to_nat n) data)) else []))
    with (stored_stream chunks last ++ (if hasf cflags FLAG_ZLIB then be32 (adler32 1 (firstn (N.to_nat n) data)) else []))
    in Hout by (rewrite stored_stream_concat, <- app_assoc; reflexivity).
  destruct (hasf cflags FLAG_ZLIB) eqn:Z.
  - destruct (hdr_valid cflags wb Hwb Z) as (cmf & flg & Eh & Hcmf & Hflg & Hval). rewrite Eh in Hout.
    exists cmf, flg, chunks, last. rewrite Hdat. repeat split; assumption.
  - rewrite (hdr_nonzlib cflags wb Z) in Hout.
    exists 120, 1, chunks, last. rewrite Hdat. repeat split; try assumption; try lia; try reflexivity.
Qed.

Theorem level0_deflate_then_inflate_finish (data : list N) (cflags wb : N) sched out n fmt out_len :
  hasf cflags FLAG_RAW = true -> wb <= 15 -> bytes_ok data ->
  Forall (fun it => legal_mz_flush (snd it)) sched ->
  ddrive (comp_new cflags wb) data sched [] 0 = Ret (Some (out, n)) ->
  zl_of fmt = hasf cflags FLAG_ZLIB ->
  n < out_len -> out_len <= USIZE_MAX -> N.of_nat (length out) < 2 ^ 57 ->
  exists r, inflate (is_new fmt) out out_len FL_FINISH = Ret r /\
    sr_code r = MZ_STREAM_END /\ sr_in r = N.of_nat (length out) /\ sr_out r = firstn (N.to_nat n) data.
Proof.
  intros Hraw Hwb Hbytes Hleg Hd Hz Hroom Hrep Hshort.
  apply (ddrive_finished data cflags wb Hraw Hwb sched _ _ _ _ _ _ Hleg) in Hd;
    [|left; apply (GI2_init data cflags wb)|intros _; reflexivity].
  destruct (finished_shape data cflags wb out n Hwb Hbytes Hd)
    as (cmf & flg & chunks & last & Hcmf & Hflg & Hval & Hc & Hb2 & Hl2 & Hdat & Hlen & Hout).
  rewrite <- Hz in Hout.
  pose proof (inflate_finish_fresh fmt cmf flg chunks last [] out_len Hcmf Hflg Hval Hc Hb2 Hl2) as H.
  cbv zeta in H. rewrite app_nil_r in H. rewrite <- Hout in H. rewrite Hdat in H.
  apply H; [rewrite Hlen; exact Hroom|exact Hrep|exact Hshort].
Qed.

Theorem level0_deflate_then_inflate_calls (data : list N) (cflags wb : N) sched out n fmt
        (calls : list (list N * N * N)) later :
  hasf cflags FLAG_RAW = true -> wb <= 15 -> bytes_ok data ->
  Forall (fun it => legal_mz_flush (snd it)) sched ->
  ddrive (comp_new cflags wb) data sched [] 0 = Ret (Some (out, n)) ->
  zl_of fmt = hasf cflags FLAG_ZLIB ->
  Forall (fun it : list N * N * N => snd it <> FL_FINISH /\ snd it <> FL_FULL) calls ->
  concat (map (fun it : list N * N * N => fst (fst it)) calls) ++ later = out ->
  N.of_nat (length out) < 2 ^ 57 -> n < 2 ^ 40 ->
  exists codes acc s',
    sfeed (is_new fmt) [] calls [] [] = Ret (codes, acc, s') /\
    Forall (fun c => c = MZ_OK \/ c = MZ_STREAM_END \/ c = MZ_ERR_BUF) codes /\ acc = firstn (length acc) (firstn (N.to_nat n) data) /\
    (In MZ_STREAM_END codes -> acc = firstn (N.to_nat n) data).
Proof.
  intros Hraw Hwb Hbytes Hleg Hd Hz Hfl Hcat Hshort Hn40.
  apply (ddrive_finished data cflags wb Hraw Hwb sched _ _ _ _ _ _ Hleg) in Hd;
    [|left; apply (GI2_init data cflags wb)|intros _; reflexivity].
  destruct (finished_shape data cflags wb out n Hwb Hbytes Hd)
    as (cmf & flg & chunks & last & Hcmf & Hflg & Hval & Hc & Hb2 & Hl2 & Hdat & Hlen & Hout).
  rewrite <- Hz in Hout.
  pose proof (inflate_on_stored_streams fmt cmf flg chunks last [] calls later Hcmf Hflg Hval Hc Hb2 Hl2) as H.
  cbv zeta in H. rewrite app_nil_r in H. rewrite <- Hout in H. rewrite Hdat in H.
  apply H; [exact Hfl|exact Hcat| |rewrite Hlen; exact Hn40].
  assert (X : (length (concat (map (fun it : list N * N * N => fst (fst it)) calls)) <= length out)%nat)
    by (rewrite <- Hcat, app_length; lia).
  lia.
Qed.
