(* The RFC 1951 specification decodes a sequence of byte-aligned stored blocks back to the
   bytes they carry (spec side of the level-0 round trip). *)
From Coq Require Import NArith List Bool Lia Arith.
From MZ.spec Require Import Adler DeflateSpec.
Import ListNotations.
Local Open Scope N_scope.

Definition bytes_ok (l : list N) : Prop := Forall (fun x => x < 256) l.

(* ---- bit fields *)
Lemma take_bits_aux n : forall x r,
  take_bits n (byte_bits_aux n x ++ r) = Some (x mod 2 ^ N.of_nat n, r).
Proof.
  induction n as [|n IH]; intros x r.
  - cbn. rewrite N.mod_1_r. reflexivity.
  - cbn [byte_bits_aux app take_bits]. rewrite IH. f_equal. f_equal.
    rewrite Nat2N.inj_succ, N.pow_succ_r'.
    set (m := 2 ^ N.of_nat n). assert (Hm : m <> 0) by (apply N.pow_nonzero; lia).
    pose proof (N.div2_odd x) as Hx. rewrite N.div2_div in *.
    set (q := x / 2) in *.
    pose proof (N.div_mod q m Hm) as Hq. pose proof (N.mod_lt q m Hm) as Hl.
    apply (N.mod_unique _ _ (q / m)).
    + destruct (N.odd x); cbn [b2n N.b2n] in *; lia.
    + destruct (N.odd x); cbn [b2n N.b2n] in *; lia.
Qed.

Lemma take_bits_byte x r : x < 256 -> take_bits 8 (byte_bits x ++ r) = Some (x, r).
Proof.
  intros H. unfold byte_bits. rewrite take_bits_aux. change (2 ^ N.of_nat 8) with 256.
  rewrite N.mod_small by exact H. reflexivity.
Qed.

Lemma take_bits_add n : forall m bits,
  take_bits (n + m) bits =
  match take_bits n bits with
  | Some (v, r) => match take_bits m r with
                   | Some (w, r') => Some (v + 2 ^ N.of_nat n * w, r')
                   | None => None
                   end
  | None => None
  end.
Proof.
  induction n as [|n IH]; intros m bits.
  - cbn [plus take_bits]. destruct (take_bits m bits) as [[w r']|]; [|reflexivity].
    change (N.of_nat 0) with 0. rewrite N.pow_0_r, N.mul_1_l, N.add_0_l. reflexivity.
  - cbn [plus take_bits]. destruct bits as [|b bits]; [reflexivity|].
    rewrite IH. destruct (take_bits n bits) as [[v r]|]; [|reflexivity].
    destruct (take_bits m r) as [[w r']|]; [|reflexivity].
    f_equal. f_equal. rewrite Nat2N.inj_succ, N.pow_succ_r'. lia.
Qed.

Definition le16 (v : N) : list N := [v mod 256; v / 256 mod 256].

Lemma take_bits_le16 v r : v < 65536 ->
  take_bits 16 (bits_of_bytes (le16 v) ++ r) = Some (v, r).
Proof.
  intros H. unfold le16. cbn [bits_of_bytes]. rewrite app_nil_r, <- app_assoc.
  change 16%nat with (8 + 8)%nat. rewrite take_bits_add.
  rewrite take_bits_byte by (apply N.mod_lt; lia).
  rewrite take_bits_byte by (apply N.mod_lt; lia).
  f_equal. f_equal. change (2 ^ N.of_nat 8) with 256.
  rewrite (N.mod_small (v / 256)) by (apply N.div_lt_upper_bound; lia).
  pose proof (N.div_mod v 256 ltac:(lia)). lia.
Qed.

Lemma bits_of_bytes_app l l' : bits_of_bytes (l ++ l') = bits_of_bytes l ++ bits_of_bytes l'.
Proof. induction l as [|x l IH]; cbn [bits_of_bytes app]; [reflexivity|]. rewrite IH, app_assoc. reflexivity. Qed.

Lemma take_bytes_ok l : forall r, bytes_ok l ->
  take_bytes (length l) (bits_of_bytes l ++ r) = Some (l, r).
Proof.
  induction l as [|x l IH]; intros r H; cbn [length take_bytes bits_of_bytes app]; [reflexivity|].
  inversion H; subst. rewrite <- app_assoc, take_bits_byte by assumption. rewrite IH by assumption. reflexivity.
Qed.

(* ---- one stored block that starts on a byte boundary *)
Definition stored_block (fin : bool) (chunk : list N) : list N :=
  let len := N.of_nat (length chunk) in
  b2n fin :: le16 len ++ le16 (65535 - len) ++ chunk.

Definition sblk (fin : bool) (chunk : list N) : block := mkblock fin Stored (map Lit chunk) [] [] [].

Lemma stored_block_length fin chunk : N.of_nat (length (stored_block fin chunk)) = 5 + N.of_nat (length chunk).
Proof. unfold stored_block, le16. cbn [length app]. lia. Qed.

Lemma parse_stored_block fin chunk rest q :
  bytes_ok chunk -> N.of_nat (length chunk) <= 65535 ->
  parse_block (bits_of_bytes (stored_block fin chunk ++ rest)) (8 * q)
  = POk (sblk fin chunk, 8 * q + 40 + 8 * N.of_nat (length chunk)) (bits_of_bytes rest).
Proof.
  intros Hb Hl. unfold stored_block.
  set (len := N.of_nat (length chunk)) in *.
  cbn [app bits_of_bytes]. unfold parse_block.
  assert (P1 : (8 * q + 3) mod 8 = 3).
  { rewrite N.add_comm, N.mul_comm, N.mod_add by lia. reflexivity. }
  assert (Hhd : forall tl, take_bits 3 (byte_bits (b2n fin) ++ tl) = Some (b2n fin, [false; false; false; false; false] ++ tl)).
  { intros tl. destruct fin; reflexivity. }
  rewrite Hhd. cbv zeta.
  replace (b2n fin / 2 =? 0) with true by (destruct fin; reflexivity).
  rewrite P1. change ((8 - 3) mod 8) with 5. change (N.to_nat 5) with 5%nat.
  assert (H5 : forall tl, take_bits 5 ([false; false; false; false; false] ++ tl) = Some (0, tl)) by reflexivity.
  rewrite H5.
  rewrite !bits_of_bytes_app, <- !app_assoc.
  rewrite take_bits_le16 by lia.
  rewrite take_bits_le16 by lia.
  replace (len + (65535 - len) =? 65535) with true by (symmetry; apply N.eqb_eq; lia).
  cbn [negb]. unfold len at 1. rewrite Nat2N.id.
  rewrite take_bytes_ok by assumption.
  unfold sblk. replace (N.odd (b2n fin)) with fin by (destruct fin; reflexivity).
  f_equal. f_equal. fold len. lia.
Qed.

(* ---- a whole stream of stored blocks *)
Fixpoint stored_stream (chunks : list (list N)) (last : list N) : list N :=
  match chunks with
  | [] => stored_block true last
  | c :: cs => stored_block false c ++ stored_stream cs last
  end.

Definition chunks_ok (chunks : list (list N)) : Prop :=
  Forall (fun c => bytes_ok c /\ N.of_nat (length c) <= 65535) chunks.

Lemma parse_stored_stream chunks : forall last rest fuel q acc,
  chunks_ok chunks -> bytes_ok last -> N.of_nat (length last) <= 65535 ->
  (length chunks < length fuel)%nat ->
  parse_blocks fuel (bits_of_bytes (stored_stream chunks last ++ rest)) (8 * q) acc
  = POk (frev (sblk true last :: rev (map (sblk false) chunks) ++ acc),
         8 * (q + N.of_nat (length (stored_stream chunks last)))) (bits_of_bytes rest).
Proof.
  induction chunks as [|c cs IH]; intros last rest fuel q acc Hc Hl Hn Hf.
  - destruct fuel as [|f fuel]; [cbn in Hf; lia|].
    cbn [stored_stream parse_blocks]. rewrite parse_stored_block by assumption.
    cbn [sblk mkblock b_final map rev app].
    f_equal. f_equal. rewrite stored_block_length. lia.
  - destruct fuel as [|f fuel]; [cbn in Hf; lia|].
    inversion Hc as [|c' cs' [Hc1 Hc2] Hcs]; subst.
    cbn [stored_stream parse_blocks]. rewrite <- app_assoc.
    rewrite parse_stored_block by assumption.
    cbn [sblk mkblock b_final].
    replace (8 * q + 40 + 8 * N.of_nat (length c)) with (8 * (q + 5 + N.of_nat (length c))) by lia.
    rewrite IH by (try assumption; cbn [length] in Hf; lia).
    f_equal.
    + f_equal.
      * cbn [map rev]. rewrite <- app_assoc. reflexivity.
      * rewrite app_length, Nat2N.inj_add, stored_block_length. lia.
Qed.

Lemma expand_lits l : forall rout avail,
  expand_tokens (map Lit l) rout avail = Some (rev l ++ rout).
Proof.
  induction l as [|x l IH]; intros rout avail; cbn [map expand_tokens rev app]; [reflexivity|].
  rewrite IH, <- app_assoc. reflexivity.
Qed.

Lemma all_tokens_stored chunks last :
  all_tokens (map (sblk false) chunks ++ [sblk true last]) = map Lit (concat chunks ++ last).
Proof.
  unfold all_tokens. induction chunks as [|c cs IH]; cbn [map app flat_map concat].
  - cbn. rewrite app_nil_r. reflexivity.
  - rewrite IH. cbn [sblk mkblock b_tokens]. rewrite <- app_assoc, !map_app. reflexivity.
Qed.

Theorem inflate_stored_stream chunks last rest :
  chunks_ok chunks -> bytes_ok last -> N.of_nat (length last) <= 65535 ->
  inflate_spec (stored_stream chunks last ++ rest)
  = SDone (concat chunks ++ last) (N.of_nat (length (stored_stream chunks last)))
          (map (sblk false) chunks ++ [sblk true last]).
Proof.
  intros Hc Hl Hn. unfold inflate_spec, inflate_spec_bits, parse_stream.
  change 0 with (8 * 0) at 1.
  rewrite parse_stored_stream; try assumption.
  2:{ cbn [length]. assert (length chunks <= length (bits_of_bytes (stored_stream chunks last ++ rest)))%nat; [|lia].
      clear. induction chunks as [|c cs IH]; [apply Nat.le_0_l|].
      cbn [stored_stream length]. rewrite <- app_assoc. unfold stored_block at 1. cbn [app bits_of_bytes].
      rewrite app_length, bits_of_bytes_app, app_length. unfold byte_bits at 1. cbn [byte_bits_aux length]. lia. }
  rewrite app_nil_r, frev_rev. cbn [rev]. rewrite rev_involutive.
  unfold expand. rewrite all_tokens_stored, expand_lits. cbn [length].
  rewrite app_nil_r, Nat.sub_0_r, firstn_all, frev_rev, rev_involutive.
  f_equal. rewrite N.add_0_l.
  replace (8 * N.of_nat (length (stored_stream chunks last)) + 7) with (7 + N.of_nat (length (stored_stream chunks last)) * 8) by lia.
  rewrite N.div_add by lia. reflexivity.
Qed.

(* ---- zlib framing around it *)
Definition be32 (a : N) : list N := [a / 16777216 mod 256; a / 65536 mod 256; a / 256 mod 256; a mod 256].

Lemma be32_val_be32 a : a < 2 ^ 32 -> be32_val (be32 a) = a.
Proof.
  intros H. change (2 ^ 32) with 4294967296 in H. unfold be32, be32_val.
  pose proof (N.div_mod a 256 ltac:(lia)).
  pose proof (N.div_mod (a / 256) 256 ltac:(lia)).
  pose proof (N.div_mod (a / 256 / 256) 256 ltac:(lia)).
  rewrite !N.div_div in * by lia. change (256 * 256) with 65536 in *. change (65536 * 256) with 16777216 in *.
  assert (a / 16777216 < 256) by (apply N.div_lt_upper_bound; lia).
  rewrite (N.mod_small (a / 16777216)) by assumption. lia.
Qed.

Theorem zlib_stored_stream cmf flg chunks last :
  zlib_header_ok cmf flg = true ->
  chunks_ok chunks -> bytes_ok last -> N.of_nat (length last) <= 65535 ->
  let data := concat chunks ++ last in
  let body := stored_stream chunks last in
  zlib_spec true (cmf :: flg :: body ++ be32 (adler32 1 data))
  = SDone data (N.of_nat (length body) + 6) (map (sblk false) chunks ++ [sblk true last]).
Proof.
  intros Hh Hc Hl Hn data body. unfold zlib_spec. rewrite Hh. cbn [negb].
  unfold body. rewrite inflate_stored_stream by assumption.
  rewrite Nat2N.id, skipn_app, skipn_all, Nat.sub_diag. cbn [app skipn].
  assert (F : forall a, firstn 4 (be32 a) = be32 a) by reflexivity.
  assert (G : forall a, Nat.ltb (length (be32 a)) 4 = false) by reflexivity.
  rewrite F, G. fold data.
  rewrite be32_val_be32 by (apply adler32_lt, adler_valid_1).
  rewrite N.eqb_refl. cbn [negb andb]. reflexivity.
Qed.
