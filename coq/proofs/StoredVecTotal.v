(* compress_to_vec at level 0 is total: the grow-and-retry loop of compress_to_vec_inner returns, so the
   statement of StoredTotal.v becomes an equation, compress_to_vec_inner data flags = Ret (VBytes FULL).
   Three ingredients: (1) the stored engine returns (measure in_left + lookahead, as in StoredStreamTotal.v but for
   the one-shot invariant SI); (2) progress: a Finish call of compress() with room in the caller's buffer that
   reports Okay has delivered at least one byte (StoredProgress.v: output stays pending only behind a full
   buffer); (3) what has been delivered is never longer than the final stream, so the number of turns is bounded
   by its length. *)
From Coq Require Import NArith ZArith List Bool Lia Arith.
From MZ.lib Require Import Arr Bits Mach.
From MZ.spec Require Import Adler DeflateSpec.
From MZ.gen Require GenZlib.
From MZ.model Require Import DeflateCore.
From MZ.proofs Require Import IterPow StoredSpec DeflateCounts StoredModel StoredTotal StoredStreamTotal StoredProgress.
Import ListNotations.
Local Open Scope N_scope.
Arguments N.add : simpl never.
Arguments N.sub : simpl never.
Arguments N.mul : simpl never.
Arguments N.min : simpl never.
Arguments N.ltb : simpl never.
Arguments N.leb : simpl never.
Arguments N.eqb : simpl never.

(* one turn of the stored engine that continues uses up one byte of input-or-lookahead *)
Lemma stored_turn_measure1 s s' :
  s_ls s <= 258 -> stored_turn s = inl s' -> s_inleft s' + s_ls s' + 1 = s_inleft s + s_ls s.
Proof.
  intros Hls.
  unfold stored_turn. cbv zeta.
  destruct ((0 <? s_inleft s) || negb (c_flush (s_c s) =? TF_NONE) && negb (s_ls s =? 0)) eqn:Econd; [|discriminate].
  unfold csub, C_MAX_MATCH. replace (s_ls s <=? 258) with true by (symmetry; apply N.leb_le; lia).
  set (n := N.min (s_inleft s) (258 - s_ls s)).
  assert (Hpos : 1 <= s_ls s + n).
  { apply orb_true_iff in Econd. destruct Econd as [X|X].
    - apply N.ltb_lt in X. unfold n. lia.
    - apply andb_true_iff in X. destruct X as [_ X]. apply negb_true_iff, N.eqb_neq in X. lia. }
  destruct ((c_flush (s_c s) =? TF_NONE) && (s_ls s + n <? 258)); [discriminate|].
  replace (1 <=? s_ls s + n) with true by (symmetry; apply N.leb_le; exact Hpos).
  destruct (31744 <? s_bw s + 1).
  - destruct (flush_block _ _ _) as [[nn c2 cb2|c2 cb2|]| |]; try discriminate.
    destruct (negb (nn =? 0)%Z); [discriminate|].
    intros H; inversion H; subst s'; clear H. cbn [s_inleft s_ls]. unfold n. lia.
  - intros H; inversion H; subst s'; clear H. cbn [s_inleft s_ls]. unfold n. lia.
Qed.

Section Run.
Variables (data : list N) (flags wb : N).
Hypothesis Hraw : hasf flags FLAG_RAW = true.
Hypothesis Hwb : wb <= 15.

Notation SI' := (SI data flags wb).
Notation BI' := (BI data flags wb).
Notation GI' := (GI data flags wb).
Notation CI' := (CI data flags wb).
Notation FULL' := (FULL data flags wb).
Notation total' := (total data).

Definition SQr (r : res stres) : Prop :=
  match r with Ret (SRet ok c cb src) => True | _ => False end.

Lemma stored_turn_ret1 R A C0 s :
  A < 2 ^ 32 -> SI' R A C0 s -> Dzs s ->
  match stored_turn s with
  | inl s' => True
  | inr r => SQr r
  end.
Proof.
  intros HA HSI HDz.
  destruct HSI as (Hfix & Hfl & Hpe & Hin & Hil & Hsum & Hsrc & Hlp & Hcb & Hbw & Hls & Hd & Hcbuf & Hout).
  destruct Hfix as (F1 & F2 & F3 & F4 & F5 & F6).
  unfold stored_turn. cbv zeta. rewrite Hfl.
  change (TF_FINISH =? TF_NONE) with false. cbn [negb andb].
  destruct ((0 <? s_inleft s) || negb (s_ls s =? 0)) eqn:Econd; [|exact I].
  unfold csub, C_MAX_MATCH. replace (s_ls s <=? 258) with true by (symmetry; apply N.leb_le; lia).
  set (n := N.min (s_inleft s) (258 - s_ls s)).
  assert (Hn2 : s_ls s + n <= 258) by (unfold n; lia).
  assert (Hpos : 1 <= s_ls s + n).
  { apply orb_true_iff in Econd. destruct Econd as [E|E].
    - apply N.ltb_lt in E. unfold n. lia.
    - apply negb_true_iff, N.eqb_neq in E. lia. }
  replace (1 <=? s_ls s + n) with true by (symmetry; apply N.leb_le; exact Hpos).
  unfold Dzs in HDz.
  destruct (31744 <? s_bw s + 1) eqn:Ebw; [|exact I].
  apply N.ltb_lt in Ebw. assert (Hbw1 : s_bw s + 1 = BS) by (unfold BS in *; lia).
  match goal with |- context [flush_block ?cc _ _] => set (c1 := cc) end.
  rewrite (flush_block_eq c1 (s_cb s) TF_NONE).
  + destruct (flush_output (after_block c1) (s_cb s) (block_bytes c1 TF_NONE)) as [[nn c2] cb2] eqn:Efo.
    destruct (negb (nn =? 0)%Z); exact I.
  + unfold c1. cbn [set_la mkc c_flags]. rewrite F1. exact Hraw.
  + unfold c1. cbn [set_la mkc c_sbuf]. exact F3.
  + unfold c1. cbn [set_la mkc c_sbits]. exact F4.
  + unfold c1. cbn [set_la mkc c_wbits]. rewrite F2. exact Hwb.
  + left. reflexivity.
  + unfold c1. cbn [set_la mkc c_total_bytes]. rewrite Hbw1. reflexivity.
  + unfold c1. cbn [set_la mkc c_total_bytes]. unfold BS in *. lia.
  + unfold c1. cbn [set_la mkc c_adler]. rewrite F6. exact HA.
  + unfold c1. cbn [set_la mkc c_pending]. exact Hpe.
  + unfold c1. cbn [set_la mkc c_la_pos c_cbdp c_total_bytes]. lia.
  + unfold c1. cbn [set_la mkc c_total_bytes c_dsize]. unfold C_DICT_SIZE, BS in *. lia.
Qed.

Lemma compress_stored_returns1 R A c cb input :
  A < 2 ^ 32 -> BI' R A c cb -> c_flush c = TF_FINISH -> c_pending c = [] -> Dz c ->
  input = skipn (N.to_nat (c_la_pos c + c_la_size c)) data ->
  N.of_nat (length input) + c_la_size c + 1 < 2 ^ 40 ->
  exists ok c' cb' src, compress_stored c cb input = Ret (SRet ok c' cb' src).
Proof.
  intros HA HBI Hfl Hpe HDz Hin Hsmall.
  unfold compress_stored.
  set (s0 := {| s_c := c; s_cb := cb; s_in := input; s_inleft := N.of_nat (length input); s_src := 0;
               s_bw := c_total_bytes c; s_ls := c_la_size c; s_lp := c_la_pos c |}).
  set (C0 := c_la_pos c + c_la_size c).
  assert (H0 : SI' R A C0 s0).
  { destruct HBI as (Hfix & Hle & Hlp & Hcb & Htb & Hls & Hd & Hcbuf & Hout).
    unfold SI, s0. cbn [s_c s_cb s_in s_inleft s_src s_bw s_ls s_lp].
    rewrite Hpe, app_nil_r in Hout. destruct Hfix as (F1 & F2 & F3 & F4 & F5 & F6). unfold cfix.
    repeat split; try assumption; try (unfold C0; lia).
    subst input. rewrite skipn_length. unfold total in *. lia. }
  set (mu := fun s : sstate => N.to_nat (s_inleft s + s_ls s)).
  assert (H1 : forall s s', SI' R A C0 s -> stored_turn s = inl s' -> SI' R A C0 s' /\ (mu s' < mu s)%nat).
  { intros s s' Hs Ht. split.
    - exact (stored_turn_SI_inl data flags wb Hraw Hwb R A C0 s s' HA Hs Ht).
    - assert (Hls : s_ls s <= 258).
      { destruct Hs as (_ & _ & _ & _ & _ & _ & _ & _ & _ & _ & Hls & _). lia. }
      pose proof (stored_turn_measure1 s s' Hls Ht). unfold mu. lia. }
  destruct (steps_measure' stored_turn (SI' R A C0) mu H1 (S (mu s0)) s0 H0 (Nat.lt_succ_diag_r _)) as [r Hr].
  assert (Hle : (S (mu s0) <= 2 ^ 40)%nat).
  { assert (X : (mu s0 < 2 ^ 40)%nat); [|exact X]. apply pow40_nat'. unfold mu, s0. cbn [s_inleft s_ls]. rewrite N2Nat.id. lia. }
  rewrite (iter_pow_inr stored_turn _ 40 s0 r Hr Hle).
  assert (HQ : SQr r).
  { pose proof (steps_inv stored_turn (fun s => SI' R A C0 s /\ Dzs s) SQr) as X.
    assert (X1 : forall s s', SI' R A C0 s /\ Dzs s -> stored_turn s = inl s' -> SI' R A C0 s' /\ Dzs s').
    { intros s s' [Hs Hz] Ht. split; [exact (proj1 (H1 s s' Hs Ht))|].
      pose proof (stored_turn_np data flags wb Hraw Hwb R A C0 s HA Hs Hz) as Y. rewrite Ht in Y. exact Y. }
    assert (X2 : forall s r0, SI' R A C0 s /\ Dzs s -> stored_turn s = inr r0 -> SQr r0).
    { intros s r0 [Hs Hz] Ht. pose proof (stored_turn_ret1 R A C0 s HA Hs Hz) as Y. rewrite Ht in Y. exact Y. }
    specialize (X X1 X2 (S (mu s0)) s0 (conj H0 HDz)). rewrite Hr in X. exact X. }
  destruct r as [[ok c' cb' src|]| |]; try contradiction. eauto.
Qed.

Lemma nonempty_ofs L cb : cb_ok L cb -> 0 < ofs_of cb -> cb_written cb <> [].
Proof.
  intros Hok Hp X. pose proof (written_ofs L cb Hok) as E. rewrite X in E. cbn [length] in E. lia.
Qed.

Lemma ofs_le L cb : cb_ok L cb -> ofs_of cb <= L.
Proof. destruct cb as [len w ofs|]; cbn; [|contradiction]. intros (H0 & H1 & H2). lia. Qed.

(* a Finish call of compress() returns; with room in the caller's buffer, an Okay result has delivered something *)
Lemma compress_returns1 R c input out_len :
  GI' R c -> Dz c ->
  (c_finished c = false -> input = skipn (N.to_nat (c_la_pos c + c_la_size c)) data) ->
  N.of_nat (length input) + 259 < 2 ^ 40 ->
  exists r, compress c input out_len TF_FINISH = Ret (CRet r) /\
            N.of_nat (length (r_out r)) <= out_len /\
            (r_status r = TOkay -> 0 < out_len -> r_out r <> []).
Proof.
  intros HGI HDz Hin Hsmall. pose proof HGI as [Hprev HG].
  unfold compress, compress_inner. rewrite Hprev.
  change (TF_FINISH =? TF_FINISH) with true. rewrite orb_true_r. cbn [negb orb].
  set (c0 := set_flush c TF_FINISH).
  set (cb0 := CBuf out_len [] 0).
  assert (Hcb0 : cb_ok out_len cb0) by (unfold cb0; cbn; repeat split; lia).
  assert (Hdrain : forall st c' cb', flush_output_buffer c0 cb0 = (st, c', cb') ->
            (c_finished c = true \/ c_pending c <> []) ->
            exists r, Ret (CRet {| r_status := st; r_in := 0; r_out := cb_written cb'; r_comp := set_prev c' st; r_cb := cb' |})
                      = Ret (CRet r) /\ N.of_nat (length (r_out r)) <= out_len /\
                      (r_status r = TOkay -> 0 < out_len -> r_out r <> [])).
  { intros st c' cb' Hf Hcase. eexists. split; [reflexivity|]. cbn [r_status r_out].
    pose proof (fob_PF out_len _ _ _ _ _ Hcb0 Hf) as (HPF & _ & Hst).
    destruct HPF as [Hok' Hfull].
    split; [rewrite (written_ofs out_len cb' Hok'); apply (ofs_le out_len); exact Hok'|].
    intros Est Hol. apply (nonempty_ofs out_len cb' Hok').
    apply fob_vout in Hf. destruct Hf as (_ & _ & _ & Est').
    change (c_pending c0) with (c_pending c) in Hst. change (c_finished c0) with (c_finished c) in Est'.
    destruct (c_pending c') as [|x later] eqn:Ep.
    - destruct Hcase as [Hfin|Hp].
      + rewrite Hfin in Est'. cbn [andb] in Est'. congruence.
      + specialize (Hst Hp). cbn [cb0 ofs_of] in Hst. lia.
    - rewrite Hfull by discriminate. exact Hol. }
  change (c_pending c0) with (c_pending c). change (c_finished c0) with (c_finished c).
  change (c_flags c0) with (c_flags c).
  destruct HG as [(A & HBI & HAv & Had)|[Hfin Hfull]].
  2:{ rewrite Hfin, orb_true_r.
      destruct (flush_output_buffer c0 cb0) as [[st c'] cb'] eqn:Ef. apply Hdrain; [reflexivity|left; exact Hfin]. }
  pose proof (adler_lt wb Hwb A HAv) as HA.
  pose proof HBI as (Hfix & Hle & Hlp & Hcb & Htb & Hls & Hd & Hcbuf & Hout).
  destruct Hfix as (F1 & F2 & F3 & F4 & F5 & F6).
  rewrite F5, orb_false_r.
  destruct (c_pending c) as [|p ps] eqn:Hpe; cbn [negb].
  2:{ destruct (flush_output_buffer c0 cb0) as [[st c'] cb'] eqn:Ef. apply Hdrain; [reflexivity|right; discriminate]. }
  clear Hdrain.
  rewrite F1, Hraw. cbn [negb].
  assert (HBI0 : BI' R A c0 cb0).
  { unfold BI, cfix, c0, cb0.
    cbn [set_flush mkc c_flags c_wbits c_sbuf c_sbits c_finished c_adler c_la_pos c_la_size
         c_cbdp c_total_bytes c_block_index c_dict c_pending cb_written rev_append app].
    try rewrite Hpe. cbn [cb_written rev_append app] in Hout. try rewrite Hpe in Hout.
    repeat split; try assumption; eauto. }
  specialize (Hin F5).
  destruct (compress_stored_returns1 R A c0 cb0 input HA HBI0 eq_refl Hpe HDz Hin) as (ok & c1 & cb1 & src & Ecs).
  { change (c_la_size c0) with (c_la_size c). lia. }
  pose proof (compress_stored_post data flags wb Hraw Hwb R A c0 cb0 input HA HBI0 eq_refl Hpe Hin _ Ecs) as HS.
  pose proof (compress_stored_np data flags wb Hraw Hwb R A c0 cb0 input HA HBI0 eq_refl Hpe HDz Hin) as HSn.
  pose proof (compress_stored_PF out_len c0 cb0 input _ _ _ _ Hcb0 Hpe Ecs) as [HPF1 _].
  change (c_la_pos c0 + c_la_size c0) with (c_la_pos c + c_la_size c) in HS.
  rewrite Ecs in HSn |- *. cbn [bind].
  destruct HS as (Hok & HBI1 & Hfl1 & Hsrc & Hend). subst ok.
  unfold SQnp in HSn.
  pose proof HBI1 as (Hfix1 & Hle1 & Hlp1 & Hcb1 & Htb1 & Hls1 & Hd1 & Hcbuf1 & Hout1).
  destruct Hfix1 as (G1 & G2 & G3 & G4 & G5 & G6).
  set (A' := if hasf flags FLAG_ZLIB || hasf flags FLAG_ADLER then adler32 A (firstn (N.to_nat src) input) else A).
  assert (HAv' : adler_valid A').
  { unfold A'. destruct (_ || _); [|exact HAv]. apply adler32_valid. exact HAv. }
  set (c2 := if hasf (c_flags c1) FLAG_ZLIB || hasf (c_flags c1) FLAG_ADLER
             then set_adler c1 (adler32 (c_adler c1) (firstn (N.to_nat src) input)) else c1).
  assert (H2 : c_flags c2 = flags /\ c_wbits c2 = wb /\ c_sbuf c2 = 0 /\ c_sbits c2 = 0 /\ c_adler c2 = A' /\
               c_flush c2 = TF_FINISH /\ c_pending c2 = c_pending c1 /\ c_la_pos c2 = c_la_pos c1 /\
               c_la_size c2 = c_la_size c1 /\ c_cbdp c2 = c_cbdp c1 /\ c_total_bytes c2 = c_total_bytes c1 /\
               c_dsize c2 = c_dsize c1 /\ c_finished c2 = false).
  { unfold c2, A'. rewrite G1, G6. destruct (_ || _);
      cbn [set_adler mkc c_flags c_wbits c_sbuf c_sbits c_finished c_adler c_la_pos c_la_size c_flush c_prev
           c_cbdp c_total_bytes c_block_index c_dict c_pending c_dsize]; repeat split; assumption. }
  destruct H2 as (K1 & K2 & K3 & K4 & K6 & Hfl2 & Hpe2 & Hlp2 & Hls2 & Hcb2 & Htb2 & Hds2 & K5).
  clearbody c2.
  rewrite Hfl2, Hls2, Hpe2.
  change (TF_FINISH =? TF_NONE) with false. cbn [negb andb].
  destruct HPF1 as [Hok1 Hfull1].
  destruct Hcbuf1 as (len1 & w1 & ofs1 & Ecb1).
  match goal with |- exists _, bind (if ?b then _ else _) _ = _ /\ _ => destruct b eqn:Efin end.
  - apply andb_true_iff in Efin. destruct Efin as [E1 E2].
    apply N.eqb_eq in E1. apply negb_true_iff, orb_false_iff in E2. destruct E2 as [E2 E3].
    apply negb_false_iff in E3. destruct (c_pending c1) as [|? ?] eqn:Hp1; [|discriminate]. clear E3.
    rewrite (flush_block_eq c2 cb1 TF_FINISH);
      [|rewrite K1; exact Hraw|exact K3|exact K4|rewrite K2; exact Hwb|right; reflexivity|apply orb_true_r
       |rewrite Htb2; unfold BS in *; lia|rewrite K6; apply (adler_lt wb Hwb); exact HAv'|exact Hpe2
       |rewrite Hlp2, Hcb2, Htb2; exact Hlp1|unfold Dz in HSn; rewrite Htb2, Hds2; exact HSn].
    cbn [bind].
    destruct (flush_output (after_block c2) cb1 (block_bytes c2 TF_FINISH)) as [[n c3] cb3] eqn:Efo.
    assert (Hn0 : (0 <= n)%Z).
    { rewrite Ecb1 in Efo. exact (flush_output_nonneg wb Hwb _ _ _ _ _ _ _ _ Efo). }
    assert (Hne : block_bytes c2 TF_FINISH <> []).
    { unfold block_bytes. intros X. apply app_eq_nil in X. destruct X as [_ X]. apply app_eq_nil in X.
      destruct X as [X _]. unfold stored_block in X. discriminate X. }
    assert (Hpa : c_pending (after_block c2) = []) by (unfold after_block; cbn [mkc c_pending]; exact Hpe2).
    pose proof (flush_output_PF out_len (after_block c2) _ _ _ _ _ Hok1 Hpa Efo)
      as ([Hok3 _] & Hmono3 & Hstrict3 & _).
    specialize (Hstrict3 Hne).
    replace (n <? 0)%Z with false by (symmetry; apply Z.ltb_ge; exact Hn0).
    cbn [bind].
    set (c4 := if c_flush (set_finished c3 (c_flush c3 =? TF_FINISH)) =? TF_FULL
               then set_dsize (set_finished c3 (c_flush c3 =? TF_FINISH)) 0
               else set_finished c3 (c_flush c3 =? TF_FINISH)).
    clearbody c4.
    destruct (flush_output_buffer c4 cb3) as [[st c5] cb5] eqn:Ef5.
    pose proof (fob_PF out_len _ _ _ _ _ Hok3 Ef5) as ([Hok5 _] & Hmono5 & _).
    eexists. split; [reflexivity|]. cbn [r_status r_out].
    split; [rewrite (written_ofs out_len cb5 Hok5); apply (ofs_le out_len); exact Hok5|].
    intros _ Hol. apply (nonempty_ofs out_len cb5 Hok5).
    pose proof (ofs_le out_len cb1 Hok1).
    destruct (N.ltb_spec (ofs_of cb1) out_len) as [Hlt|Hge]; [specialize (Hstrict3 Hlt); lia|lia].
  - cbn [bind].
    destruct (flush_output_buffer c2 cb1) as [[st c3] cb3] eqn:Ef3.
    pose proof (fob_PF out_len _ _ _ _ _ Hok1 Ef3) as ([Hok3 _] & Hmono3 & _).
    eexists. split; [reflexivity|]. cbn [r_status r_out].
    split; [rewrite (written_ofs out_len cb3 Hok3); apply (ofs_le out_len); exact Hok3|].
    intros _ Hol. apply (nonempty_ofs out_len cb3 Hok3).
    destruct (c_pending c1) as [|x later] eqn:Hp1.
    + exfalso. destruct (Hend eq_refl) as [Hls0 Hlp0].
      rewrite Hls0 in Efin. change (0 =? 0) with true in Efin. cbn [andb] in Efin.
      apply negb_false_iff, orb_true_iff in Efin. destruct Efin as [X|X]; [|discriminate X].
      apply negb_true_iff, N.eqb_neq in X. apply X.
      rewrite Hin, skipn_length. unfold total in *. lia.
    + rewrite Hfull1 in Hmono3 by discriminate. lia.
Qed.

(* what has been delivered is never longer than the whole stream *)
Lemma encs_length_mono k K : (k <= K)%nat -> (length (encs data k) <= length (encs data K))%nat.
Proof.
  induction 1 as [|K' _ IH]; [lia|]. cbn [encs]. rewrite app_length. lia.
Qed.

Lemma enc_le_FULL k : k <= total' / BS -> (length (enc data flags wb k) <= length FULL')%nat.
Proof.
  intros Hk. unfold enc, FULL. destruct (k =? 0); [cbn [length]; lia|].
  rewrite !app_length.
  pose proof (encs_length_mono (N.to_nat k) (N.to_nat (total' / BS)) ltac:(lia)). lia.
Qed.

Lemma GI_length R c : GI' R c -> (length R <= length FULL')%nat.
Proof.
  intros [_ [(A & HBI & _)|[_ Hfull]]].
  - destruct HBI as (_ & Hle & Hlp & Hcb & _ & _ & _ & _ & Hout).
    assert (Hk : c_block_index c <= total' / BS).
    { apply N.div_le_lower_bound; [unfold BS; lia|]. unfold total in *. lia. }
    pose proof (enc_le_FULL _ Hk) as X. rewrite <- Hout in X. rewrite !app_length in X. lia.
  - rewrite <- Hfull, app_length. lia.
Qed.

Lemma encs_length k : N.of_nat (length (encs data k)) <= N.of_nat k * (BS + 5).
Proof.
  induction k as [|k IH]; [cbn; lia|]. cbn [encs]. rewrite app_length, Nat2N.inj_add, stored_block_length.
  assert (N.of_nat (length (chunk data k)) <= BS).
  { unfold chunk. rewrite firstn_length. lia. }
  lia.
Qed.

Lemma FULL_length : N.of_nat (length FULL') <= 7 * total' + 11.
Proof.
  unfold FULL. rewrite !app_length, !Nat2N.inj_add, stored_block_length, skipn_length.
  pose proof (encs_length (N.to_nat (total' / BS))) as H1. rewrite N2Nat.id in H1.
  assert (H2 : N.of_nat (length (hdr flags wb)) <= 2).
  { unfold hdr. destruct (hasf flags FLAG_ZLIB); [|cbn; lia].
    destruct (GenZlib.header_from_flags _ _) as [[h0 h1] ?]. cbn. lia. }
  assert (H3 : N.of_nat (length (if hasf flags FLAG_ZLIB then be32 (adler32 1 data) else [])) <= 4).
  { destruct (hasf flags FLAG_ZLIB); cbn; lia. }
  assert (H4 : BS * (total' / BS) <= total') by (apply N.mul_div_le; unfold BS; lia).
  unfold total in *. unfold BS in *. lia.
Qed.

(* the loop state *)
Definition VI (s : cvstate) : Prop :=
  CI' s /\ Dz (vs_c s) /\ vs_pos s < vs_len s /\ N.of_nat (length (vs_in s)) + 259 < 2 ^ 40.

Lemma cvec_turn_VI s s' :
  VI s -> cvec_turn s = inl s' -> VI s' /\ (length FULL' - length (vs_rout s') < length FULL' - length (vs_rout s))%nat.
Proof.
  intros (HCI & HDz & Hpos & Hsmall) Ht.
  pose proof (cvec_turn_inl data flags wb Hraw Hwb s s' HCI Ht) as HCI'.
  pose proof (cvec_turn_np data flags wb Hraw Hwb s HCI HDz) as Hnp. rewrite Ht in Hnp.
  destruct HCI as [HG Hin].
  destruct (compress_returns1 _ _ (vs_in s) (vs_len s - vs_pos s) HG HDz Hin Hsmall) as (r & Er & Hlen & Hprog).
  unfold cvec_turn in Ht. rewrite Er in Ht.
  destruct (r_status r) eqn:Est; try discriminate.
  destruct (r_in r <=? N.of_nat (length (vs_in s))); [|discriminate].
  inversion Ht; subst s'; clear Ht. cbn [vs_c vs_rout] in *.
  specialize (Hprog eq_refl ltac:(lia)).
  split.
  - split; [exact HCI'|]. split; [exact Hnp|]. cbn [vs_pos vs_len vs_in]. split.
    + destruct (vs_len s - (vs_pos s + N.of_nat (length (r_out r))) <? 30) eqn:E.
      * lia.
      * apply N.ltb_ge in E. lia.
    + rewrite skipn_length. lia.
  - destruct HCI' as [HG' _]. cbn [vs_rout vs_c] in HG'. apply GI_length in HG'.
    rewrite rev_length in HG'. rewrite rev_append_rev, app_length, rev_length in *.
    destruct (r_out r); [contradiction|cbn [length] in *; lia].
Qed.

End Run.

(* ------------------------------------------------------------------ the statement *)
Theorem compress_to_vec_level0_total (data : list N) (flags : N) :
  hasf flags FLAG_RAW = true -> N.of_nat (length data) < 2 ^ 36 ->
  compress_to_vec_inner data flags = Ret (VBytes (FULL data flags 15)).
Proof.
  intros Hraw Hsmall.
  assert (Hwb : 15 <= 15) by lia.
  unfold compress_to_vec_inner.
  set (s0 := {| vs_c := comp_new flags 15; vs_in := data; vs_len := _; vs_pos := 0; vs_rout := [] |}).
  assert (H0 : VI data flags 15 s0).
  { split; [split; [apply GI_init|intros _; reflexivity]|].
    split; [unfold Dz, s0; cbn; lia|]. unfold s0. cbn [vs_pos vs_len vs_in].
    split; [lia|]. change (2 ^ 40) with 1099511627776. change (2 ^ 36) with 68719476736 in Hsmall. lia. }
  set (mu := fun s : cvstate => (length (FULL data flags 15) - length (vs_rout s))%nat).
  destruct (steps_measure' cvec_turn (VI data flags 15) mu
              (fun s s' Hs Ht => cvec_turn_VI data flags 15 Hraw Hwb s s' Hs Ht)
              (S (mu s0)) s0 H0 (Nat.lt_succ_diag_r _)) as [r Hr].
  assert (Hle : (S (mu s0) <= 2 ^ 40)%nat).
  { assert (X : (mu s0 < 2 ^ 40)%nat); [|exact X]. apply pow40_nat'. unfold mu, s0. cbn [vs_rout length].
    rewrite Nat.sub_0_r. pose proof (FULL_length data flags 15).
    change (2 ^ 40) with 1099511627776. change (2 ^ 36) with 68719476736 in Hsmall. unfold total in *. lia. }
  rewrite (iter_pow_inr cvec_turn _ 40 s0 r Hr Hle).
  (* the value comes from a turn taken in a state satisfying the invariants *)
  set (Q := fun r0 : res cvres => match r0 with Ret (VBytes out) => out = FULL data flags 15 | _ => False end).
  assert (HQ : Q r).
  { pose proof (steps_inv cvec_turn (VI data flags 15) Q) as X.
    assert (X1 : forall s s', VI data flags 15 s -> cvec_turn s = inl s' -> VI data flags 15 s').
    { intros s s' Hs Ht. exact (proj1 (cvec_turn_VI data flags 15 Hraw Hwb s s' Hs Ht)). }
    assert (X2 : forall s r0, VI data flags 15 s -> cvec_turn s = inr r0 -> Q r0).
    { intros s r0 (HCI & HDz & Hpos & Hsm) Ht.
      pose proof (cvec_turn_inr data flags 15 Hraw Hwb s r0 HCI Ht) as Hq.
      pose proof (cvec_turn_np data flags 15 Hraw Hwb s HCI HDz) as Hnp. rewrite Ht in Hnp.
      destruct HCI as [HG Hin].
      destruct (compress_returns1 data flags 15 Hraw Hwb _ _ (vs_in s) (vs_len s - vs_pos s) HG HDz Hin Hsm)
        as (rr & Er & _).
      unfold cvec_turn in Ht. rewrite Er in Ht.
      assert (Hret : exists v, r0 = Ret v).
      { destruct (r_status rr); try (inversion Ht; eauto).
        destruct (r_in rr <=? _); inversion Ht; eauto. }
      destruct Hret as [v ->]. unfold Q. destruct v as [out| |]; [exact Hq|contradiction|contradiction]. }
    specialize (X X1 X2 (S (mu s0)) s0 H0). rewrite Hr in X. exact X. }
  unfold Q in HQ. destruct r as [[out| |]| |]; try contradiction. rewrite HQ. reflexivity.
Qed.
