(* Extraction of the specification (oracle) and of the executable models.
   ExtrOcamlBasic only: bool, option, list, prod, unit, sumbool map to OCaml natives;
   N, Z, positive, nat, PositiveMap stay Coq datatypes. *)
From Coq Require Import NArith ZArith List Extraction ExtrOcamlBasic.
From MZ.lib Require Import Arr Bits.
From MZ.spec Require Import Adler Crc DeflateSpec.
From MZ.gen Require Import GenZlib GenTables.
From MZ.model Require Import Oracle InflateCore InflateDrive InflateStream.
From MZ.model Require DeflateCore.

Extraction Language OCaml.
Extraction "mzmodel.ml"
  Adler.adler32 Crc.crc32 Oracle.thread_splits
  DeflateSpec.inflate_spec DeflateSpec.zlib_spec DeflateSpec.inflate_spec_bits
  DeflateSpec.bits_of_bytes
  Oracle.summarize Oracle.prefix_spec Oracle.block_is_sync Oracle.spec_ring
  GenZlib.header_from_flags GenZlib.validate_zlib_header GenZlib.num_extra_bits_for_distance_code
  GenZlib.create_comp_flags_from_zip_params GenZlib.limit_level_by_window_bits
  GenZlib.window_bits_from_flags GenZlib.probes_from_flags GenZlib.update_hash
  GenZlib.mz_deflateBound
  Arr.amake Arr.aget Arr.aset Arr.alen Arr.aset_list Arr.aget_list Arr.aof_list
  InflateCore.decompress InflateCore.dec_default InflateCore.dec_init InflateCore.dec_adler32
  InflateCore.status_code InflateCore.state_id
  InflateDrive.drive
  InflateStream.is_new InflateStream.min_reset InflateStream.zero_reset InflateStream.full_reset
  InflateStream.inflate InflateStream.decompress_to_vec_inner InflateStream.decompress_slice_iter_to_slice
  DeflateCore.comp_new DeflateCore.comp_reset DeflateCore.with_params DeflateCore.DEFAULT_FLAGS
  DeflateCore.compress DeflateCore.compress_to_output DeflateCore.deflate DeflateCore.compress_to_vec_inner
  DeflateCore.tstatus_code.
