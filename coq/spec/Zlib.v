(* RFC 1950: the two-byte zlib header. *)
From Coq Require Import ZArith Bool Lia.
Local Open Scope Z_scope.

(* CMF = CINFO(4 bits) | CM(4 bits),  FLG = FLEVEL(2) | FDICT(1) | FCHECK(5).
   A header is acceptable to this library when CM = 8 (deflate), CINFO <= 7
   (window <= 32 KiB), FDICT = 0 (no preset dictionary) and
   CMF*256 + FLG is a multiple of 31. *)
Definition valid_header (cmf flg : Z) : bool :=
  ((cmf * 256 + flg) mod 31 =? 0) && (cmf mod 16 =? 8) && (cmf / 16 <=? 7)
  && (flg / 32 mod 2 =? 0).

Definition header_window (cmf : Z) : Z := 2 ^ (cmf / 16 + 8).
