(* RFC 1951 (DEFLATE) and RFC 1950 (zlib) as an executable specification.

   Written from the RFCs; shares no table and no code with the crate.  The
   stream is a list of bits in the order RFC 1951 section 3.1.1 defines (least significant bit
   of each byte first).  Decoding is split in two:

     parse   : bits -> blocks (purely syntactic: headers, code-length sets, tokens)
     expand  : blocks -> bytes (LZ77 semantics: literals and back references)

   so that statements about the token level (C10, C11, C12) and about the bytes
   (C01..C04) talk about the same object. *)
From Coq Require Import NArith List Bool Lia.
From MZ.spec Require Import Adler.
Import ListNotations.
Local Open Scope N_scope.

(* ------------------------------------------------------------------ bits *)

Definition b2n (b : bool) : N := if b then 1 else 0.

(* linear-time list reversal (List.rev is quadratic when run); [frev l = rev l] *)
Definition frev {A} (l : list A) : list A := rev_append l [].
Lemma frev_rev {A} (l : list A) : frev l = rev l.
Proof. unfold frev. symmetry. apply rev_alt. Qed.

Fixpoint byte_bits_aux (n : nat) (x : N) : list bool :=
  match n with
  | O => []
  | S n' => N.odd x :: byte_bits_aux n' (N.div2 x)
  end.
Definition byte_bits (x : N) : list bool := byte_bits_aux 8 x.

Fixpoint bits_of_bytes (l : list N) : list bool :=
  match l with
  | [] => []
  | x :: l' => byte_bits x ++ bits_of_bytes l'
  end.

(* an n-bit little-endian field (RFC 1951 3.1.1: data elements other than Huffman
   codes are packed starting with the least significant bit) *)
Fixpoint take_bits (n : nat) (bits : list bool) : option (N * list bool) :=
  match n with
  | O => Some (0, bits)
  | S n' =>
      match bits with
      | [] => None
      | b :: bits' =>
          match take_bits n' bits' with
          | Some (v, rest) => Some (b2n b + 2 * v, rest)
          | None => None
          end
      end
  end.

Fixpoint take_bytes (n : nat) (bits : list bool) : option (list N * list bool) :=
  match n with
  | O => Some ([], bits)
  | S n' =>
      match take_bits 8 bits with
      | Some (v, rest) =>
          match take_bytes n' rest with
          | Some (vs, rest') => Some (v :: vs, rest')
          | None => None
          end
      | None => None
      end
  end.

(* ------------------------------------------------------------------ Huffman codes (3.2.2) *)

(* length of a list as a binary number (tail recursive) *)
Definition nlength {A} (l : list A) : N := fold_left (fun a _ => N.succ a) l 0.

Definition MAXBITS : nat := 15.

(* number of codes of length [len] *)
Definition count_len (lens : list N) (len : N) : N :=
  N.of_nat (length (filter (N.eqb len) lens)).

(* counts for lengths 1..15 *)
Definition bl_count (lens : list N) : list N :=
  map (fun i => count_len lens (N.of_nat i)) (seq 1 MAXBITS).

(* symbols ordered by (length, symbol value): the canonical order *)
Fixpoint syms_of_len (lens : list N) (len : N) (i : N) : list N :=
  match lens with
  | [] => []
  | l :: lens' => if (l =? len) then i :: syms_of_len lens' len (i + 1)
                  else syms_of_len lens' len (i + 1)
  end.
Definition canon_syms (lens : list N) : list N :=
  flat_map (fun i => syms_of_len lens (N.of_nat i) 0) (seq 1 MAXBITS).

(* Kraft sum scaled by 2^15: sum over used symbols of 2^(15-len) *)
Definition kraft (lens : list N) : N :=
  fold_left (fun acc l => if l =? 0 then acc else acc + 2 ^ (15 - l)) lens 0.
Definition max_len (lens : list N) : N := fold_left N.max lens 0.

Definition over_subscribed (lens : list N) : bool := 2 ^ 15 <? kraft lens.
Definition complete (lens : list N) : bool := kraft lens =? 2 ^ 15.

(* Which length sets a decoder accepts.  Code-length alphabet: complete only.
   Literal/length and distance alphabets: complete, or - as zlib sanctions - no code at all
   or a single code of length 1. *)
Definition lens_ok (strict : bool) (lens : list N) : bool :=
  forallb (fun l => l <=? 15) lens &&
  negb (over_subscribed lens) &&
  (complete lens || (negb strict && (max_len lens <=? 1))).

Inductive dsym := DSym (s : N) (len : N) (rest : list bool) | DTrunc | DInvalid.

(* Canonical decoding, one bit at a time (most significant code bit first, 3.1.1):
   [code] is the value of the bits read so far, [first] the first code of the current
   length, [index] the position in canonical order of the first symbol of this length. *)
Fixpoint decode_aux (counts syms : list N) (code first index len : N) (bits : list bool) : dsym :=
  match counts with
  | [] => DInvalid
  | count :: counts' =>
      match bits with
      | [] => DTrunc
      | b :: bits' =>
          let code := code + b2n b in
          if (first <=? code) && (code - first <? count)
          then DSym (nth (N.to_nat (index + (code - first))) syms 0) (len + 1) bits'
          else decode_aux counts' syms (2 * code) (2 * (first + count)) (index + count) (len + 1) bits'
      end
  end.

Record hcode := { hc_counts : list N; hc_syms : list N }.
Definition mk_hcode (lens : list N) : hcode :=
  {| hc_counts := bl_count lens; hc_syms := canon_syms lens |}.
Definition decode_sym (h : hcode) (bits : list bool) : dsym :=
  decode_aux (hc_counts h) (hc_syms h) 0 0 0 0 bits.

(* ------------------------------------------------------------------ alphabets (3.2.5) *)

Definition length_base : list N :=
  [3;4;5;6;7;8;9;10;11;13;15;17;19;23;27;31;35;43;51;59;67;83;99;115;131;163;195;227;258].
Definition length_extra : list N :=
  [0;0;0;0;0;0;0;0;1;1;1;1;2;2;2;2;3;3;3;3;4;4;4;4;5;5;5;5;0].
Definition dist_base : list N :=
  [1;2;3;4;5;7;9;13;17;25;33;49;65;97;129;193;257;385;513;769;1025;1537;2049;3073;4097;6145;
   8193;12289;16385;24577].
Definition dist_extra : list N :=
  [0;0;0;0;1;1;2;2;3;3;4;4;5;5;6;6;7;7;8;8;9;9;10;10;11;11;12;12;13;13].

(* order of the code-length code lengths (3.2.7) *)
Definition clen_order : list N := [16;17;18;0;8;7;9;6;10;5;11;4;12;3;13;2;14;1;15].

(* fixed code (3.2.6) *)
Definition fixed_litlen_lens : list N :=
  repeat 8 144 ++ repeat 9 112 ++ repeat 7 24 ++ repeat 8 8.
Definition fixed_dist_lens : list N := repeat 5 32.

(* ------------------------------------------------------------------ tokens and blocks *)

Inductive token := Lit (b : N) | Match (len dist : N).

Inductive bkind := Stored | Fixed | Dynamic.

Record block := {
  b_final : bool;
  b_kind : bkind;
  b_tokens : list token;      (* for Stored: the bytes, as literals *)
  b_litlens : list N;         (* literal/length code lengths as transmitted (Dynamic) *)
  b_distlens : list N;        (* distance code lengths as transmitted (Dynamic) *)
  b_clens : list N            (* the 19 code-length code lengths (Dynamic) *)
}.

(* error kinds: exactly the format violations a decoder must refuse *)
Inductive ekind :=
  | EBlockType        (* reserved block type 3 *)
  | EStoredLen        (* LEN <> ~NLEN *)
  | ETableSizes       (* HLIT > 286 or HDIST > 30 *)
  | EClenCode         (* code-length code not complete / over-subscribed *)
  | ERepeatFirst      (* repeat-previous with no previous length *)
  | ERepeatOverrun    (* repeat run beyond HLIT + HDIST *)
  | ELitlenCode       (* literal/length code over-subscribed or incomplete *)
  | EDistCode         (* distance code over-subscribed or incomplete *)
  | EBadSymbol        (* bit pattern that is no code, or symbol 286/287 resp. 30/31 *)
  | EDistance         (* distance reaches before the start of the output *)
  | EZlibHeader
  | EAdler.

Inductive pres (A : Type) :=
  | POk (a : A) (rest : list bool)
  | PTrunc
  | PErr (e : ekind).
Arguments POk {A}. Arguments PTrunc {A}. Arguments PErr {A}.

(* --- tokens of one compressed block; [fuel] is only a structural-recursion device:
   every iteration consumes at least one bit, so passing the bit list itself suffices. *)
Fixpoint parse_tokens (fuel : list bool) (lit dist : hcode) (bits : list bool) (pos : N)
         (acc : list token) : pres (list token * N) :=
  match fuel with
  | [] => PTrunc
  | _ :: fuel' =>
      match decode_sym lit bits with
      | DTrunc => PTrunc
      | DInvalid => PErr EBadSymbol
      | DSym s l1 bits1 =>
          if s <? 256 then parse_tokens fuel' lit dist bits1 (pos + l1) (Lit s :: acc)
          else if s =? 256 then POk (frev acc, pos + l1) bits1
          else if 285 <? s then PErr EBadSymbol
          else
            let i := N.to_nat (s - 257) in
            let ne := nth i length_extra 0 in
            match take_bits (N.to_nat ne) bits1 with
            | None => PTrunc
            | Some (e, bits2) =>
                let len := nth i length_base 0 + e in
                match decode_sym dist bits2 with
                | DTrunc => PTrunc
                | DInvalid => PErr EBadSymbol
                | DSym d l2 bits3 =>
                    if 29 <? d then PErr EBadSymbol
                    else
                      let j := N.to_nat d in
                      let nd := nth j dist_extra 0 in
                      match take_bits (N.to_nat nd) bits3 with
                      | None => PTrunc
                      | Some (e2, bits4) =>
                          parse_tokens fuel' lit dist bits4 (pos + l1 + ne + l2 + nd)
                                       (Match len (nth j dist_base 0 + e2) :: acc)
                      end
                end
            end
      end
  end.

(* --- the HLIT + HDIST code lengths, coded with the code-length code (3.2.7) *)
Fixpoint parse_lens (fuel : list bool) (cl : hcode) (total : N) (bits : list bool) (pos : N)
         (acc : list N) (* reversed *) : pres (list N * N) :=
  if total <=? N.of_nat (length acc) then
    (if total =? N.of_nat (length acc) then POk (frev acc, pos) bits else PErr ERepeatOverrun)
  else
  match fuel with
  | [] => PTrunc
  | _ :: fuel' =>
      match decode_sym cl bits with
      | DTrunc => PTrunc
      | DInvalid => PErr EBadSymbol
      | DSym s l1 bits1 =>
          if s <? 16 then parse_lens fuel' cl total bits1 (pos + l1) (s :: acc)
          else if s =? 16 then
            match acc with
            | [] => PErr ERepeatFirst
            | prev :: _ =>
                match take_bits 2 bits1 with
                | None => PTrunc
                | Some (e, bits2) =>
                    parse_lens fuel' cl total bits2 (pos + l1 + 2) (repeat prev (N.to_nat (3 + e)) ++ acc)
                end
            end
          else if s =? 17 then
            match take_bits 3 bits1 with
            | None => PTrunc
            | Some (e, bits2) => parse_lens fuel' cl total bits2 (pos + l1 + 3) (repeat 0 (N.to_nat (3 + e)) ++ acc)
            end
          else
            match take_bits 7 bits1 with
            | None => PTrunc
            | Some (e, bits2) => parse_lens fuel' cl total bits2 (pos + l1 + 7) (repeat 0 (N.to_nat (11 + e)) ++ acc)
            end
      end
  end.

Fixpoint take_clens (n : nat) (bits : list bool) (acc : list N) : option (list N * list bool) :=
  match n with
  | O => Some (frev acc, bits)
  | S n' =>
      match take_bits 3 bits with
      | None => None
      | Some (v, rest) => take_clens n' rest (v :: acc)
      end
  end.

(* place the transmitted code-length code lengths at their alphabet positions *)
Definition clens_at (vals : list N) : list N :=
  map (fun sym =>
         match find (fun p => fst p =? sym) (combine clen_order vals) with
         | Some p => snd p
         | None => 0
         end) (map N.of_nat (seq 0 19)).

Definition mkblock fin k toks ll dl cl : block :=
  {| b_final := fin; b_kind := k; b_tokens := toks; b_litlens := ll; b_distlens := dl; b_clens := cl |}.

(* [consumed] = number of bits consumed before [bits], needed to find the byte boundary *)
Definition parse_block (bits : list bool) (consumed : N) : pres (block * N) :=
  match take_bits 3 bits with
  | None => PTrunc
  | Some (hdr, bits1) =>
      let fin := N.odd hdr in
      let ty := hdr / 2 in
      let p1 := consumed + 3 in
      if ty =? 0 then
        let pad := (8 - p1 mod 8) mod 8 in
        match take_bits (N.to_nat pad) bits1 with
        | None => PTrunc
        | Some (_, bits2) =>
            match take_bits 16 bits2 with
            | None => PTrunc
            | Some (len, bits3) =>
                match take_bits 16 bits3 with
                | None => PTrunc
                | Some (nlen, bits4) =>
                    if negb (len + nlen =? 65535) then PErr EStoredLen
                    else
                      match take_bytes (N.to_nat len) bits4 with
                      | None => PTrunc
                      | Some (bytes, bits5) =>
                          POk (mkblock fin Stored (map Lit bytes) [] [] [], p1 + pad + 32 + 8 * len) bits5
                      end
                end
            end
        end
      else if ty =? 1 then
        match parse_tokens bits1 (mk_hcode fixed_litlen_lens) (mk_hcode fixed_dist_lens) bits1 p1 [] with
        | POk (toks, p2) rest => POk (mkblock fin Fixed toks [] [] [], p2) rest
        | PTrunc => PTrunc
        | PErr e => PErr e
        end
      else if ty =? 2 then
        match take_bits 5 bits1 with
        | None => PTrunc
        | Some (hlit, bits2) =>
        match take_bits 5 bits2 with
        | None => PTrunc
        | Some (hdist, bits3) =>
        match take_bits 4 bits3 with
        | None => PTrunc
        | Some (hclen, bits4) =>
            if (286 <? hlit + 257) || (30 <? hdist + 1) then PErr ETableSizes
            else
            match take_clens (N.to_nat (hclen + 4)) bits4 [] with
            | None => PTrunc
            | Some (cvals, bits5) =>
                let cl := clens_at cvals in
                if negb (lens_ok true cl) then PErr EClenCode
                else
                match parse_lens bits5 (mk_hcode cl) (hlit + 257 + hdist + 1) bits5
                                 (p1 + 14 + 3 * (hclen + 4)) [] with
                | PTrunc => PTrunc
                | PErr e => PErr e
                | POk (lens, p2) bits6 =>
                    let ll := firstn (N.to_nat (hlit + 257)) lens in
                    let dl := skipn (N.to_nat (hlit + 257)) lens in
                    if negb (lens_ok false ll) then PErr ELitlenCode
                    else if negb (lens_ok false dl) then PErr EDistCode
                    else
                    match parse_tokens bits6 (mk_hcode ll) (mk_hcode dl) bits6 p2 [] with
                    | POk (toks, p3) rest => POk (mkblock fin Dynamic toks ll dl cl, p3) rest
                    | PTrunc => PTrunc
                    | PErr e => PErr e
                    end
                end
            end
        end end end
      else PErr EBlockType
  end.

Fixpoint parse_blocks (fuel : list bool) (bits : list bool) (consumed : N)
         (acc : list block) : pres (list block * N) :=
  match fuel with
  | [] => PTrunc
  | _ :: fuel' =>
      match parse_block bits consumed with
      | PTrunc => PTrunc
      | PErr e => PErr e
      | POk (b, consumed') rest =>
          if b_final b then POk (frev (b :: acc), consumed') rest
          else parse_blocks fuel' rest consumed' (b :: acc)
      end
  end.

(* a stream has at least 3 bits per block: the bit list itself (plus one) is enough fuel *)
Definition parse_stream (bits : list bool) : pres (list block * N) :=
  parse_blocks (true :: bits) bits 0 [].

(* ------------------------------------------------------------------ LZ77 expansion *)

(* output is kept most-recent-first; [pre] = what a back reference sees before the start
   of the output: [] for a flat buffer (error), the previous window contents for a ring *)
Fixpoint cycle_take (n : nat) (pat cur : list N) : list N :=
  match n with
  | O => []
  | S n' =>
      match cur with
      | [] => match pat with
              | [] => []
              | x :: cur' => x :: cycle_take n' pat cur'
              end
      | x :: cur' => x :: cycle_take n' pat cur'
      end
  end.

(* the [len] bytes produced by a match at distance [dist], oldest first *)
Definition match_bytes (rout : list N) (len dist : N) : list N :=
  let pat := frev (firstn (N.to_nat dist) rout) in
  cycle_take (N.to_nat len) pat pat.

Fixpoint expand_tokens (toks : list token) (rout : list N) (avail : N) : option (list N) :=
  match toks with
  | [] => Some rout
  | Lit b :: toks' => expand_tokens toks' (b :: rout) (avail + 1)
  | Match len dist :: toks' =>
      if (dist =? 0) || (avail <? dist) then None
      else expand_tokens toks' (rev_append (match_bytes rout len dist) rout) (avail + len)
  end.

Definition all_tokens (bs : list block) : list token := flat_map b_tokens bs.

(* [pre]: bytes visible before the start, most recent first *)
Definition expand (pre : list N) (bs : list block) : option (list N) :=
  match expand_tokens (all_tokens bs) pre (N.of_nat (length pre)) with
  | Some rout => Some (frev (firstn (length rout - length pre) rout))
  | None => None
  end.

(* ------------------------------------------------------------------ results *)

Inductive sres :=
  | SDone (out : list N) (nbytes : N) (blocks : list block)   (* nbytes: encoded length in bytes *)
  | STrunc
  | SErr (e : ekind).

Definition inflate_spec_bits (pre : list N) (bits : list bool) : sres :=
  match parse_stream bits with
  | PTrunc => STrunc
  | PErr e => SErr e
  | POk (bs, nbits) _ =>
      match expand pre bs with
      | None => SErr EDistance
      | Some out => SDone out ((nbits + 7) / 8) bs
      end
  end.

(* raw DEFLATE over bytes, flat output *)
Definition inflate_spec (data : list N) : sres := inflate_spec_bits [] (bits_of_bytes data).

(* ------------------------------------------------------------------ zlib (RFC 1950) *)

Definition zlib_header_ok (cmf flg : N) : bool :=
  ((cmf * 256 + flg) mod 31 =? 0) && (cmf mod 16 =? 8) && (cmf / 16 <=? 7) && (flg / 32 mod 2 =? 0).

Definition be32_val (l : list N) : N :=
  match l with
  | [a; b; c; d] => ((a * 256 + b) * 256 + c) * 256 + d
  | _ => 0
  end.

Definition zlib_spec (check : bool) (data : list N) : sres :=
  match data with
  | cmf :: flg :: body =>
      if negb (zlib_header_ok cmf flg) then SErr EZlibHeader
      else
        match inflate_spec body with
        | SDone out n bs =>
            let trailer := firstn 4 (skipn (N.to_nat n) body) in
            if Nat.ltb (length trailer) 4 then STrunc
            else if check && negb (be32_val trailer =? adler32 1 out) then SErr EAdler
            else SDone out (n + 6) bs
        | r => r
        end
  | _ => STrunc
  end.
