(* CRC-32 (ISO 3309 / ITU-T V.42, reflected polynomial 0xEDB88320), bit by bit,
   and its incremental composition law. *)
From Coq Require Import NArith List Lia.
Import ListNotations.
Local Open Scope N_scope.

Definition CRC_POLY : N := 3988292384. (* 0xEDB88320 *)
Definition M32 : N := 4294967295.      (* 0xFFFFFFFF *)

Definition crc_bit (c : N) : N :=
  if N.odd c then N.lxor (N.shiftr c 1) CRC_POLY else N.shiftr c 1.

Definition crc_byte (c b : N) : N :=
  let c := N.lxor c b in
  crc_bit (crc_bit (crc_bit (crc_bit (crc_bit (crc_bit (crc_bit (crc_bit c))))))).

(* raw register update *)
Definition crc_raw (c : N) (data : list N) : N := fold_left crc_byte data c.

(* update a finished CRC value [c] with [data] (pre/post conditioning with ~) *)
Definition crc32 (c : N) (data : list N) : N :=
  N.lxor (crc_raw (N.lxor c M32) data) M32.

Lemma lxor_M32_invol x : N.lxor (N.lxor x M32) M32 = x.
Proof. rewrite N.lxor_assoc, N.lxor_nilpotent, N.lxor_0_r. reflexivity. Qed.

Theorem crc32_app c xs ys : crc32 (crc32 c xs) ys = crc32 c (xs ++ ys).
Proof.
  unfold crc32, crc_raw. rewrite fold_left_app, lxor_M32_invol. reflexivity.
Qed.

Lemma crc32_nil c : crc32 c [] = c.
Proof. unfold crc32, crc_raw; cbn [fold_left]. apply lxor_M32_invol. Qed.

(* check value of the standard: CRC-32("123456789") = 0xCBF43926 *)
Example crc_check : crc32 0 [49;50;51;52;53;54;55;56;57] = 3421780262.
Proof. vm_compute. reflexivity. Qed.
