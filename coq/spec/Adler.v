(* Adler-32 exactly as RFC 1950 section 8.2 defines it, and its incremental
   composition law. *)
From Coq Require Import NArith List Lia.
Import ListNotations.
Local Open Scope N_scope.

Definition ADLER_MOD : N := 65521.

Definition adler_step (s : N * N) (b : N) : N * N :=
  let s1 := (fst s + b) mod ADLER_MOD in
  (s1, (snd s + s1) mod ADLER_MOD).

Definition adler_unpack (a : N) : N * N := (a mod 65536, a / 65536).
Definition adler_pack (s : N * N) : N := snd s * 65536 + fst s.

(* update a running checksum [a] with [data] *)
Definition adler32 (a : N) (data : list N) : N :=
  adler_pack (fold_left adler_step data (adler_unpack a)).

Definition adler_valid (a : N) : Prop :=
  a mod 65536 < ADLER_MOD /\ a / 65536 < ADLER_MOD.
Definition adler_validb (a : N) : bool :=
  (a mod 65536 <? ADLER_MOD) && (a / 65536 <? ADLER_MOD).

Definition pair_valid (s : N * N) : Prop := fst s < ADLER_MOD /\ snd s < ADLER_MOD.

Lemma adler_step_valid s b : pair_valid (adler_step s b).
Proof.
  unfold pair_valid, adler_step, ADLER_MOD; cbn [fst snd].
  split; apply N.mod_lt; lia.
Qed.

Lemma fold_valid data : forall s, pair_valid s -> pair_valid (fold_left adler_step data s).
Proof.
  induction data as [|b data IH]; intros s Hs; cbn [fold_left]; [exact Hs|].
  apply IH, adler_step_valid.
Qed.

Lemma unpack_pack s : pair_valid s -> adler_unpack (adler_pack s) = s.
Proof.
  destruct s as [s1 s2]. unfold pair_valid, adler_unpack, adler_pack, ADLER_MOD; cbn [fst snd].
  intros [H1 H2]. f_equal.
  - rewrite N.add_comm, N.mod_add by lia. apply N.mod_small; lia.
  - rewrite N.add_comm, N.div_add by lia. rewrite N.div_small by lia. lia.
Qed.

Lemma unpack_valid a : adler_valid a -> pair_valid (adler_unpack a).
Proof. unfold adler_valid, pair_valid, adler_unpack; cbn [fst snd]. tauto. Qed.

Lemma adler32_valid a data : adler_valid a -> adler_valid (adler32 a data).
Proof.
  intros Ha. unfold adler32.
  pose proof (fold_valid data _ (unpack_valid a Ha)) as Hv.
  pose proof (unpack_pack _ Hv) as Hu.
  remember (fold_left adler_step data (adler_unpack a)) as s eqn:Es.
  remember (adler_pack s) as p eqn:Ep.
  unfold adler_valid. unfold adler_unpack in Hu.
  destruct s as [s1 s2].
  inversion Hu as [[E1 E2]]. rewrite E1, E2. exact Hv.
Qed.

Theorem adler32_app a xs ys :
  adler_valid a -> adler32 (adler32 a xs) ys = adler32 a (xs ++ ys).
Proof.
  intros Ha. unfold adler32. rewrite fold_left_app.
  rewrite unpack_pack; [reflexivity|].
  apply fold_valid, unpack_valid, Ha.
Qed.

Lemma adler32_nil a : a < 2 ^ 32 -> adler32 a [] = a.
Proof.
  intros _. unfold adler32, adler_pack, adler_unpack; cbn [fold_left fst snd].
  rewrite N.mul_comm. symmetry. apply N.div_mod. lia.
Qed.

Lemma adler_valid_1 : adler_valid 1.
Proof. unfold adler_valid, ADLER_MOD. split; reflexivity. Qed.

Lemma adler32_lt a data : adler_valid a -> adler32 a data < 2 ^ 32.
Proof.
  intros Ha. pose proof (fold_valid data _ (unpack_valid a Ha)) as [H1 H2].
  unfold adler32, adler_pack. unfold ADLER_MOD in *.
  change (2 ^ 32) with 4294967296. lia.
Qed.

(* big-endian 4-byte image, as stored in the zlib trailer *)
Definition be32 (x : N) : list N :=
  [x / 16777216 mod 256; x / 65536 mod 256; x / 256 mod 256; x mod 256].

(* RFC 1950 example-style vector: "Wikipedia" -> 0x11E60398 *)
Example adler_wikipedia :
  adler32 1 [87; 105; 107; 105; 112; 101; 100; 105; 97] = 300286872.
Proof. vm_compute. reflexivity. Qed.
