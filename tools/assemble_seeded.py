#!/usr/bin/env python3
"""Development tool: copy confirmed seeded changes from the scratch area into /verif/seeded/<id>/ with a meta.json.
   usage: assemble_seeded.py <scratch dir> [id ...]"""
import json, os, re, shutil, subprocess, sys

MANUAL = {
    # confirmed by hand (feature-gated demos / shell demos); the commands are recorded here
    "C17_a": "cargo test --workspace --offline with the change: 0 failed; cargo test --offline --test c17_a_demo -- --test-threads=1 with the change: "
             "declared_source_length_is_respected FAILED, source_against_guard_page SIGSEGV; without: 3 passed",
    "C19_a": "cargo test --workspace --offline with the change: 0 failed; cargo test --offline -p miniz_oxide_test --test c19_a_demo with the change: "
             "2 failed; without: 2 passed",
    "C19_b": "cargo test --workspace --offline with the change: 0 failed; (cd miniz_oxide; cargo test --offline --features block-boundary --test c19_b_demo) "
             "with the change: 2 of 3 failed; without: 3 passed",
    "C20_a": "cargo test --workspace --offline with the change: 0 failed; bash demo.sh with the change: FAIL (no global memory allocator found); without: PASS",
    "C19_c": "cargo test --workspace --offline with the change: 0 failed; cargo test --offline -p miniz_oxide_test --test c19_c_demo with the "
             "change: 1 of 2 failed; without: 2 passed",
    "C20_c": "cargo test --workspace --offline with the change: 0 failed; (cd miniz_oxide; cargo test --offline --features block-boundary "
             "--test c20_c_demo) with the change: 1 of 2 failed (DecompressorOxide is not Sync); without: 2 passed",
    "C20_d": "cargo test --workspace --offline with the change: 0 failed; bash demo.sh with the change: FAIL (duplicate lang item panic_impl: "
             "std linked under feature simd); without: PASS",
    "C20_b": "cargo test --workspace --offline with the change: 0 failed; bash demo.sh with the change: FAIL (unsafe token at output_buffer.rs:126,130); without: PASS",
}


def needs_of(notes):
    paras = re.split(r"\n\s*\n", notes)
    for p in paras:
        if re.search(r"need(ed|s)?\b.*(manifest|:)|what it needs|trigger", p[:200], re.I):
            return " ".join(p.split())[:900]
    for i, l in enumerate(notes.splitlines()):
        if re.search(r"\bneed", l, re.I):
            return " ".join(" ".join(notes.splitlines()[i:i + 6]).split())[:900]
    return " ".join(notes.split())[:600]


def main():
    src = sys.argv[1]
    ids = sys.argv[2:] or sorted(d for d in os.listdir(src) if re.fullmatch(r"C\d\d_[a-z]", d))
    head = subprocess.run("git -C /repo rev-parse --short HEAD", shell=True, stdout=subprocess.PIPE).stdout.decode().strip()
    for mid in ids:
        d = os.path.join(src, mid)
        conf = {}
        if os.path.exists(os.path.join(d, "confirm.json")):
            try:
                conf = json.load(open(os.path.join(d, "confirm.json")))
            except Exception:
                conf = {}
        ok = mid in MANUAL or (conf.get("suite_pass_with_change") and conf.get("demo_fails_with_change") and conf.get("demo_passes_without"))
        if not ok:
            print("skip (not confirmed):", mid)
            continue
        out = os.path.join("/verif/seeded", mid)
        os.makedirs(out, exist_ok=True)
        for f in os.listdir(d):
            if f in ("patch.diff", "demo.rs", "demo.sh", "notes.md") or f.startswith("patch_before_"):
                shutil.copy(os.path.join(d, f), os.path.join(out, f))
        notes = open(os.path.join(d, "notes.md")).read()
        det = {}
        if os.path.exists(os.path.join(d, "detect.json")):
            try:
                det = json.load(open(os.path.join(d, "detect.json"))).get("checks", {})
            except Exception:
                det = {}
        detection = {}
        for p, r in det.items():
            first = next((l for l in r["lines"] if l.startswith("VIOLATION")), None)
            detection[p] = {"command": "bin/check %s --tier quick" % p, "exit": r["rc"], "caught": r["rc"] == 1 and first is not None,
                            "first_line": first or (r["lines"][0] if r["lines"] else "")}
        meta = {
            "id": mid,
            "property": mid.split("_")[0],
            "title": notes.splitlines()[0].lstrip("# ").strip(),
            "needs_to_manifest": needs_of(notes),
            "what_i_ran": MANUAL.get(mid) or (
                "in a scratch worktree of /repo: `cargo test --workspace --offline` with the change -> %s; demo (%s) with the change -> %s; "
                "demo on the unchanged tree -> %s" % ("all pass" if conf.get("suite_pass_with_change") else "?", conf.get("demo_path"),
                                                      "fails" if conf.get("demo_fails_with_change") else "?",
                                                      "passes" if conf.get("demo_passes_without") else "?")),
            "applies_to": "patch.diff applies to /repo at %s%s" % (head, "; patch_before_*.diff is the sub-agent's original against the tree before that fix"
                                                                   if any(f.startswith("patch_before_") for f in os.listdir(d)) else ""),
            "detection": detection,
        }
        json.dump(meta, open(os.path.join(out, "meta.json"), "w"), indent=1)
        print("kept", mid, {p: v["caught"] for p, v in detection.items()})


if __name__ == "__main__":
    main()
