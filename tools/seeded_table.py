#!/usr/bin/env python3
"""Development tool: print the DESIGN.md section 7.2 table from seeded/*/meta.json."""
import json, os, re
rows = []
kinds = {}
for mid in sorted(os.listdir("/verif/seeded")):
    mp = os.path.join("/verif/seeded", mid, "meta.json")
    if not os.path.exists(mp):
        continue
    m = json.load(open(mp))
    title = re.sub(r"^C\d\d_[a-z]\s*[-:—–]+\s*", "", m["title"]).strip()
    title = re.sub(r"^(Seeded change|Mutant)\s*C\d\d_[a-z]\s*[-:—–]*\s*", "", title).strip()
    title = re.sub(r"^C\d\d change [A-Za-z]\s*[-:—–]+\s*", "", title).strip()
    for p, d in m["detection"].items():
        fl = d["first_line"]
        rep = re.sub(r"^VIOLATION property=\S+ replay=\S+\s*", "", fl)
        if "correspondence broken" in rep:
            how = "model/implementation correspondence"
        elif "proof obligation" in rep:
            how = "proof obligation + regenerated definition"
        else:
            how = "failing input (oracle)"
        kinds[how] = kinds.get(how, 0) + 1
        rows.append("| %s | %s | `bin/check %s` | %s | %s |" % (mid, title.replace("|", "/"), p, how if d["caught"] else "**not caught**",
                                                                 rep[:150].replace("|", "/")))
print("| change | what it does | caught by | how | first report |")
print("|---|---|---|---|---|")
print("\n".join(rows))
print()
print("<!-- %d rows: %s -->" % (len(rows), kinds))
