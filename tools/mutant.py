#!/usr/bin/env python3
"""Development tool: confirm a seeded change (suite passes, demo fails with / passes without) in its scratch
worktree, and run our checks against it in /repo (apply, check, revert)."""
import json, os, re, subprocess, sys, shutil, time

def sh(cmd, cwd=None, timeout=3000):
    p = subprocess.run(cmd, shell=True, cwd=cwd, stdout=subprocess.PIPE, stderr=subprocess.STDOUT, timeout=timeout)
    return p.returncode, p.stdout.decode("utf-8", "replace")

def confirm(mdir):
    mid = os.path.basename(mdir.rstrip("/"))
    prop = mid.split("_")[0]
    wt = "%s%s" % (os.environ.get("WT_PREFIX", "/tmp/wt_"), prop)
    demo = open(os.path.join(mdir, "demo.rs")).read()
    m = re.search(r"/tmp/wt3?_\w+/(\S+\.rs)", demo)
    rel = m.group(1) if m else "miniz_oxide/tests/%s_demo.rs" % mid.lower()
    name = os.path.basename(rel)[:-3]
    pkg = "miniz_oxide" if rel.startswith("miniz_oxide/") else "miniz_oxide_c_api"
    env = "CARGO_TARGET_DIR=%s/target CARGO_NET_OFFLINE=true" % wt
    res = {"id": mid, "demo_path": rel}
    sh("git checkout -- . && git clean -fdq -e target", wt)
    rc, out = sh("git apply %s/patch.diff" % mdir, wt)
    res["applies"] = rc == 0
    if rc != 0:
        res["error"] = out[-300:]
        return res
    rc, out = sh("%s cargo test --workspace --offline 2>&1 | grep -E '^test result|FAILED|panicked|error(\\[|:)' | head -20" % env, wt)
    res["suite_pass_with_change"] = ("FAILED" not in out and "error" not in out and "test result: ok" in out)
    res["suite_out"] = out[-400:]
    os.makedirs(os.path.dirname(os.path.join(wt, rel)), exist_ok=True)
    shutil.copy(os.path.join(mdir, "demo.rs"), os.path.join(wt, rel))
    rc1, out1 = sh("%s cargo test --offline -p %s --test %s 2>&1 | tail -15" % (env, pkg, name), wt)
    res["demo_fails_with_change"] = ("test result: FAILED" in out1 or "panicked" in out1 or "signal:" in out1) and "error[" not in out1
    res["demo_with"] = out1[-300:]
    sh("git apply -R %s/patch.diff" % mdir, wt)
    rc2, out2 = sh("%s cargo test --offline -p %s --test %s 2>&1 | tail -8" % (env, pkg, name), wt)
    res["demo_passes_without"] = "test result: ok" in out2 and "FAILED" not in out2
    res["demo_without"] = out2[-200:]
    sh("git checkout -- . && git clean -fdq -e target", wt)
    return res

def detect(mdir, props):
    mid = os.path.basename(mdir.rstrip("/"))
    rc, out = sh("git -C /repo status --porcelain")
    assert out.strip() == "", "repo dirty: " + out
    rc, out = sh("git -C /repo apply %s/patch.diff" % mdir)
    res = {"id": mid, "checks": {}}
    try:
        for p in props:
            t = time.time()
            rc, out = sh("cd /verif && bin/check %s --tier quick" % p, timeout=3000)
            lines = [l for l in out.splitlines() if l.startswith(("VIOLATION", "OK ", "KNOWN", "CHECK-ERROR"))]
            res["checks"][p] = {"rc": rc, "lines": [l[:400] for l in lines[:4]], "wall": round(time.time() - t, 1)}
    finally:
        sh("git -C /repo checkout -- .")
    return res

if __name__ == "__main__":
    mode = sys.argv[1]
    if mode == "confirm":
        print(json.dumps(confirm(sys.argv[2]), indent=1))
    else:
        print(json.dumps(detect(sys.argv[2], sys.argv[3:]), indent=1))
